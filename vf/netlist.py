"""Engine N core: real elaborated netlist -> Python transition function.

A *harness* is the component(s) under test wrapped in a Module exactly as a user would do it, a list
of free inputs (Signals nothing drives) and a list of probes (Signals, simple Value expressions, or
``amaranth.lib.memory.Memory`` objects).  ``compile_harness`` elaborates it with the real Amaranth
front end (``Fragment.get`` + ``Design`` + ``build_netlist``), and compiles the flat netlist (NIR)
mechanically into straight-line Python:

    step(state, inp) -> (outs, next_state)

``state`` is a tuple: all flip-flops in the cone of influence of the probes, then synchronous
read-port latches, then memories (tuples of rows).  ``inp`` is a tuple in harness input order,
``outs`` a tuple in probe order (memory probes yield the tuple of rows).

Anything the evaluator does not understand is a ``ToolError``, never a verdict.
"""
import sys
import warnings

from amaranth.hdl import Fragment, Signal, Const, Value as AValue
from amaranth.hdl import _ast, _nir as nir, _mem
from amaranth.hdl._ir import build_netlist
from amaranth.lib import memory as libmem


class ToolError(Exception):
    pass


class Harness:
    def __init__(self, top, inputs, probes, meta=None):
        self.top = top
        self.inputs = list(inputs)    # [(name, Signal-castable)]
        self.probes = list(probes)    # [(name, Signal | simple Value | lib.memory.Memory)]
        self.meta = meta or {}
        names = [n for n, _ in self.inputs]
        if len(set(names)) != len(names):
            raise ToolError(f"duplicate input names {names}")
        names = [n for n, _ in self.probes]
        if len(set(names)) != len(names):
            raise ToolError(f"duplicate probe names {names}")


def _as_value(obj):
    return AValue.cast(obj)


def _leaf_signals(value, out):
    """Signals referenced by a simple (Signal / Slice / Cat / Const) value expression."""
    if isinstance(value, Signal):
        out.append(value)
    elif isinstance(value, _ast.Slice):
        _leaf_signals(value.value, out)
    elif isinstance(value, _ast.Concat):
        for part in value.parts:
            _leaf_signals(part, out)
    elif isinstance(value, Const):
        pass
    else:
        raise ToolError(f"unsupported probe expression {value!r}")


class Compiled:
    pass


def compile_harness(h, only=None):
    """Elaborate and compile. ``only``: probe names to keep (cone of influence is computed from them)."""
    with warnings.catch_warnings():
        warnings.simplefilter("ignore")
        frag = Fragment.get(h.top, None)
        in_sigs = []
        for name, sig in h.inputs:
            v = _as_value(sig)
            if not isinstance(v, Signal):
                raise ToolError(f"input {name} is not a Signal: {v!r}")
            in_sigs.append(v)
        probes = [(n, p) for n, p in h.probes if only is None or n in only]
        port_sigs, seen = [], set()
        for v in in_sigs:
            if len(v) and id(v) not in seen:
                seen.add(id(v)); port_sigs.append(v)
        probe_vals = []
        for name, p in probes:
            if isinstance(p, (libmem.Memory, libmem.MemoryData)):
                probe_vals.append(("mem", p if isinstance(p, libmem.MemoryData) else p.data))
                continue
            v = _as_value(p)
            _leaf_signals(v, [])      # only checks that the expression is a simple one
            # Probes are NOT made ports: the netlist maps every signal of the design to its nets,
            # and an undriven signal that is not a port is the constant given by its init value
            # (exactly what the simulator shows), e.g. the r_data of a reserved field.
            probe_vals.append(("val", v))
        design = frag.prepare(ports=port_sigs, hierarchy=("top",))
        nl = build_netlist(design)
    c = _compile(nl, design, h, in_sigs, probes, probe_vals)
    c.design = design          # the elaborated design itself (conform.simulate_design runs exactly this elaboration)
    return c


def _resolve(nl, v):
    """Nets of a simple value expression."""
    if isinstance(v, Signal):
        if len(v) == 0:
            return ()
        if v not in nl.signals:
            # not referenced by the design at all: it keeps its initial value forever
            init = v.init & ((1 << len(v)) - 1)
            return tuple(nir.Net.from_const((init >> i) & 1) for i in range(len(v)))
        return tuple(nl.signals[v])
    if isinstance(v, _ast.Slice):
        return _resolve(nl, v.value)[v.start:v.stop]
    if isinstance(v, _ast.Concat):
        out = ()
        for part in v.parts:
            out += _resolve(nl, part)
        return out
    if isinstance(v, Const):
        return tuple(nir.Net.from_const((v.value >> i) & 1) for i in range(len(v)))
    raise ToolError(f"unsupported probe expression {v!r}")


_COMB = (nir.Operator, nir.Part, nir.Matches, nir.PriorityMatch, nir.AssignmentList,
         nir.AsyncReadPort)


def _compile(nl, design, h, in_sigs, probes, probe_vals):
    cells = nl.cells
    top = cells[0]
    if not isinstance(top, nir.Top):
        raise ToolError("cell 0 is not Top")

    # --- bind inputs by signal identity -------------------------------------------------------
    bound = {}           # start bit in Top -> (input index, width)
    in_pos = []
    for k, sig in enumerate(in_sigs):
        if len(sig) == 0:
            in_pos.append(None); continue
        nets = _resolve(nl, sig)
        if any(n.is_const or n.is_late or n.cell != 0 for n in nets):
            raise ToolError(f"input {h.inputs[k][0]} is driven inside the design")
        start = nets[0].bit
        if [n.bit for n in nets] != list(range(start, start + len(nets))):
            raise ToolError(f"input {h.inputs[k][0]} has non-contiguous nets")
        if start in bound:
            raise ToolError(f"input {h.inputs[k][0]} listed twice")
        bound[start] = (k, len(nets))
        in_pos.append((start, len(nets)))
    clk_net = None
    unbound = []
    for pname, (start, width) in top.ports_i.items():
        if start in bound:
            continue
        if pname == "clk":
            clk_net = nir.Net.from_cell(0, start)
        elif pname == "rst":
            pass        # held at 0
        else:
            unbound.append(pname)
    if unbound:
        raise ToolError(f"undriven signals that the harness does not list as inputs: {unbound}")

    # --- memories: MemoryData identity -> nir.Memory cell ------------------------------------
    mem_by_path = {}
    for ci, c in enumerate(cells):
        if isinstance(c, nir.Memory):
            mem_by_path[tuple(nl.modules[c.module_idx].name) + (c.name,)] = ci
    mem_of_data = {}
    for f, info in design.fragments.items():
        if isinstance(f, _mem.MemoryInstance):
            path = tuple(info.name)
            if path in mem_by_path:
                mem_of_data[id(f._data)] = mem_by_path[path]

    # --- probes -> nets ------------------------------------------------------------------------
    probe_nets = []
    for (name, _), (kind, v) in zip(probes, probe_vals):
        if kind == "mem":
            if id(v) not in mem_of_data:
                raise ToolError(f"memory probe {name} not found in the netlist")
            probe_nets.append(("mem", mem_of_data[id(v)]))
        else:
            probe_nets.append(("val", _resolve(nl, v)))

    # --- cone of influence -----------------------------------------------------------------------
    wports = {}   # memory cell -> [write port cells]
    for ci, c in enumerate(cells):
        if isinstance(c, nir.SyncWritePort):
            wports.setdefault(c.memory, []).append(ci)
    needed = set()
    work = []

    def need_net(net):
        if net.is_const:
            return
        if net.is_late:
            raise ToolError("unresolved late net")
        if net.cell not in needed:
            needed.add(net.cell); work.append(net.cell)

    def need_mem(mi):
        if mi not in needed:
            needed.add(mi); work.append(mi)

    for kind, x in probe_nets:
        if kind == "mem":
            need_mem(x)
        else:
            for n in x:
                need_net(n)
    while work:
        ci = work.pop()
        c = cells[ci]
        if isinstance(c, nir.Top):
            continue
        if isinstance(c, nir.Memory):
            for wp in wports.get(ci, ()):
                if wp not in needed:
                    needed.add(wp); work.append(wp)
            continue
        if isinstance(c, (nir.AsyncReadPort, nir.SyncReadPort)):
            need_mem(c.memory)
        if isinstance(c, _COMB + (nir.FlipFlop, nir.SyncReadPort, nir.SyncWritePort)):
            for n in c.input_nets():
                if isinstance(c, (nir.FlipFlop, nir.SyncReadPort, nir.SyncWritePort)) and n == c.clk:
                    continue
                need_net(n)
        else:
            raise ToolError(f"unsupported cell kind in the cone of the probes: {c!r}")

    flops = [ci for ci in sorted(needed) if isinstance(cells[ci], nir.FlipFlop)]
    srps = [ci for ci in sorted(needed) if isinstance(cells[ci], nir.SyncReadPort)]
    mems = [ci for ci in sorted(needed) if isinstance(cells[ci], nir.Memory)]
    for ci in flops + srps + [w for mi in mems for w in wports.get(mi, ())]:
        c = cells[ci]
        if c.clk_edge != "pos" or (clk_net is not None and c.clk != clk_net):
            raise ToolError("more than one clock domain / negative edge: not supported")
        if isinstance(c, nir.FlipFlop) and c.arst != 0:
            raise ToolError("asynchronous reset: not supported")

    def width_of(ci):
        c = cells[ci]
        if isinstance(c, (nir.Operator, nir.Part, nir.AsyncReadPort, nir.SyncReadPort)):
            return c.width
        if isinstance(c, nir.Matches):
            return 1
        if isinstance(c, nir.PriorityMatch):
            return len(c.inputs)
        if isinstance(c, nir.AssignmentList):
            return len(c.default)
        if isinstance(c, nir.FlipFlop):
            return len(c.data)
        return -1

    def vexpr(value):
        value = tuple(value)
        parts = []
        i, n = 0, len(value)
        while i < n:
            net = value[i]
            if net.is_const:
                v, j, k = net.const, i + 1, 1
                while j < n and value[j].is_const:
                    v |= value[j].const << k; k += 1; j += 1
                parts.append((str(v), k, v == 0)); i = j
            else:
                c, b = net.cell, net.bit
                j = i + 1
                while (j < n and not value[j].is_const and value[j].cell == c
                       and value[j].bit == b + (j - i)):
                    j += 1
                w = j - i
                if c != 0 and b == 0 and w == width_of(c):
                    parts.append((f"c{c}", w, False))
                elif b == 0:
                    parts.append((f"(c{c} & {(1 << w) - 1})", w, False))
                else:
                    parts.append((f"((c{c} >> {b}) & {(1 << w) - 1})", w, False))
                i = j
        out, sh = [], 0
        for e, w, zero in parts:
            if not zero:
                out.append(e if sh == 0 else f"({e} << {sh})")
            sh += w
        if not out:
            return "0"
        return "(" + " | ".join(out) + ")" if len(out) > 1 else out[0]

    def nexpr(net):
        return vexpr((net,))

    def sx(e, w):
        return f"((({e}) ^ {1 << (w - 1)}) - {1 << (w - 1)})" if w else "0"

    # --- evaluation order: SCCs of the cell graph, dependencies first -------------------------------
    # The netlist is acyclic at the level of *bits* (build_netlist checks that), but two cells can
    # depend on each other through different bits (o[3] = ~o[0] inside one AssignmentList).  Such
    # cell-level SCCs are evaluated by iterating to the (unique) fixed point.
    comb_needed = [ci for ci in sorted(needed) if isinstance(cells[ci], _COMB)]
    deps = {}
    for ci in comb_needed:
        deps[ci] = sorted({n.cell for n in cells[ci].input_nets()
                           if not n.is_const and isinstance(cells[n.cell], _COMB)})
    index, low, onstack, stack, sccs = {}, {}, set(), [], []
    counter = [0]
    for root in comb_needed:
        if root in index:
            continue
        work2 = [(root, 0)]
        while work2:
            v, i = work2.pop()
            if i == 0:
                index[v] = low[v] = counter[0]; counter[0] += 1
                stack.append(v); onstack.add(v)
            recurse = False
            ds = deps[v]
            while i < len(ds):
                w_ = ds[i]; i += 1
                if w_ not in index:
                    work2.append((v, i)); work2.append((w_, 0)); recurse = True
                    break
                elif w_ in onstack:
                    low[v] = min(low[v], index[w_])
            if recurse:
                continue
            if low[v] == index[v]:
                comp_ = []
                while True:
                    w_ = stack.pop(); onstack.discard(w_); comp_.append(w_)
                    if w_ == v:
                        break
                sccs.append(sorted(comp_))
            if work2:
                parent = work2[-1][0]
                low[parent] = min(low[parent], low[v])

    def gen_cell(ci, tgt):
        c = cells[ci]
        out = []
        if isinstance(c, nir.Operator):
            op = c.operator
            ins = [vexpr(v) for v in c.inputs]
            w = c.width
            m = (1 << w) - 1
            wi = len(c.inputs[0])
            if op == "m":
                e = f"({ins[1]} if {ins[0]} else {ins[2]})"
            elif op in ("&", "|", "^"):
                e = f"({ins[0]} {op} {ins[1]})"
            elif op in ("+", "-", "*") and len(ins) == 2:
                e = f"(({ins[0]} {op} {ins[1]}) & {m})"
            elif op == "~":
                e = f"({ins[0]} ^ {m})"
            elif op == "-":
                e = f"((-{ins[0]}) & {m})"
            elif op in ("b", "r|"):
                e = f"(1 if {ins[0]} else 0)"
            elif op == "r&":
                e = f"(1 if {ins[0]} == {(1 << wi) - 1} else 0)"
            elif op == "r^":
                e = f"(bin({ins[0]}).count('1') & 1)"
            elif op in ("==", "!="):
                e = f"(1 if {ins[0]} {op} {ins[1]} else 0)"
            elif op in ("u<", "u>", "u<=", "u>="):
                e = f"(1 if {ins[0]} {op[1:]} {ins[1]} else 0)"
            elif op in ("s<", "s>", "s<=", "s>="):
                e = f"(1 if {sx(ins[0], wi)} {op[1:]} {sx(ins[1], wi)} else 0)"
            elif op == "<<":
                e = f"((({ins[0]} << {ins[1]}) & {m}) if {ins[1]} < {w} else 0)"
            elif op == "u>>":
                e = f"({ins[0]} >> {ins[1]})"
            elif op == "s>>":
                e = f"(({sx(ins[0], w)} >> {ins[1]}) & {m})"
            elif op == "u//":
                e = f"(({ins[0]} // {ins[1]}) if {ins[1]} else 0)"
            elif op == "u%":
                e = f"(({ins[0]} % {ins[1]}) if {ins[1]} else 0)"
            elif op == "s//":
                e = f"((({sx(ins[0], w)} // {sx(ins[1], w)}) & {m}) if {ins[1]} else 0)"
            elif op == "s%":
                e = f"((({sx(ins[0], w)} % {sx(ins[1], w)}) & {m}) if {ins[1]} else 0)"
            else:
                raise ToolError(f"unknown operator {op!r}")
            out.append(f"{tgt} = {e}")
        elif isinstance(c, nir.Part):
            wv = len(c.value)
            src = sx(vexpr(c.value), wv) if c.value_signed else vexpr(c.value)
            out.append(f"{tgt} = (({src} >> ({vexpr(c.offset)} * {c.stride})) & {(1 << c.width) - 1})")
        elif isinstance(c, nir.Matches):
            v = vexpr(c.value)
            terms = []
            for p in c.patterns:
                if any(ch not in "01-" for ch in p):
                    raise ToolError(f"bad pattern {p!r}")
                mask = int("".join("0" if ch == "-" else "1" for ch in p) or "0", 2)
                val = int("".join("1" if ch == "1" else "0" for ch in p) or "0", 2)
                terms.append(f"(_v & {mask}) == {val}")
            if terms:
                out.append(f"_v = {v}")
                out.append(f"{tgt} = 1 if ({' or '.join(terms)}) else 0")
            else:
                out.append(f"{tgt} = 0")
        elif isinstance(c, nir.PriorityMatch):
            out.append(f"_v = {vexpr(c.inputs)}")
            out.append(f"{tgt} = (_v & -_v) if {nexpr(c.en)} else 0")
        elif isinstance(c, nir.AssignmentList):
            full = len(c.default)
            out.append(f"{tgt} = {vexpr(c.default)}")
            for a in c.assignments:
                if a.start >= full:
                    continue
                w = min(len(a.value), full - a.start)
                mask = ((1 << w) - 1) << a.start
                if a.start == 0 and w == full:
                    out.append(f"if {nexpr(a.cond)}: {tgt} = {vexpr(a.value[:w])}")
                else:
                    out.append(f"if {nexpr(a.cond)}: {tgt} = ({tgt} & {~mask & ((1 << full) - 1)}) | "
                               f"(({vexpr(a.value[:w])}) << {a.start})")
        elif isinstance(c, nir.AsyncReadPort):
            depth = cells[c.memory].depth
            out.append(f"_a = {vexpr(c.addr)}")
            out.append(f"{tgt} = m{c.memory}[_a] if _a < {depth} else 0")
        else:
            raise ToolError(f"unsupported combinational cell {c!r}")
        return out

    L = []
    n_fixpoint_sccs = 0
    for scc in sccs:
        selfloop = len(scc) == 1 and scc[0] in deps[scc[0]]
        if len(scc) == 1 and not selfloop:
            L += gen_cell(scc[0], f"c{scc[0]}")
            continue
        n_fixpoint_sccs += 1
        bits = sum(max(width_of(ci), 1) for ci in scc)
        for ci in scc:
            L.append(f"c{ci} = 0")
        L.append(f"for _it in range({bits + 2}):")
        L.append(f"    _old = ({', '.join(f'c{ci}' for ci in scc)},)")
        for ci in scc:
            for line in gen_cell(ci, f"_t{ci}"):
                L.append("    " + line)
            L.append(f"    c{ci} = _t{ci}")
        L.append(f"    if _old == ({', '.join(f'c{ci}' for ci in scc)},): break")
        L.append("else:")
        L.append("    raise RuntimeError('combinational SCC did not converge')")

    # --- assemble ---------------------------------------------------------------------------------
    used_top_bits = set()
    for ci in needed:
        c = cells[ci]
        if isinstance(c, nir.Top) or isinstance(c, nir.Memory):
            continue
        for n in c.input_nets():
            if not n.is_const and n.cell == 0:
                used_top_bits.add(n.bit)
    for kind, x in probe_nets:
        if kind == "val":
            for n in x:
                if not n.is_const and n.cell == 0:
                    used_top_bits.add(n.bit)
    support = []
    src = ["def step(state, inp):"]
    terms = []
    for k, pos in enumerate(in_pos):
        if pos is None:
            continue
        start, width = pos
        if any(b in used_top_bits for b in range(start, start + width)):
            support.append(h.inputs[k][0])
            terms.append(f"(inp[{k}] << {start})")
    src.append("    c0 = " + (" | ".join(terms) if terms else "0"))
    state_cells = flops + srps
    for k, ci in enumerate(state_cells):
        src.append(f"    c{ci} = state[{k}]")
    for k, ci in enumerate(mems):
        src.append(f"    m{ci} = state[{len(state_cells) + k}]")
    for l in L:
        src.append("    " + l)
    outs = []
    for kind, x in probe_nets:
        outs.append(f"m{x}" if kind == "mem" else vexpr(x))
    src.append(f"    outs = ({', '.join(outs)}{',' if outs else ''})")
    ns = [vexpr(cells[ci].data) for ci in flops]
    for ci in srps:
        c = cells[ci]
        depth = cells[c.memory].depth
        src.append(f"    _a = {vexpr(c.addr)}")
        src.append(f"    _r{ci} = m{c.memory}[_a] if _a < {depth} else 0")
        for wp in c.transparent_for:
            w = cells[wp]
            src.append(f"    if {vexpr(w.addr)} == _a:")
            src.append(f"        _e = {vexpr(w.en)}")
            src.append(f"        _r{ci} = (_r{ci} & ~_e) | ({vexpr(w.data)} & _e)")
        ns.append(f"(_r{ci} if {nexpr(c.en)} else c{ci})")
    for k, mi in enumerate(mems):
        src.append(f"    n{mi} = m{mi}")
        for wp in wports.get(mi, ()):
            w = cells[wp]
            src.append(f"    _e = {vexpr(w.en)}")
            src.append(f"    if _e:")
            src.append(f"        _a = {vexpr(w.addr)}")
            src.append(f"        if _a < {cells[mi].depth}:")
            src.append(f"            _row = list(n{mi}); _row[_a] = (_row[_a] & ~_e) | ({vexpr(w.data)} & _e); n{mi} = tuple(_row)")
        ns.append(f"n{mi}")
    src.append(f"    return outs, ({', '.join(ns)}{',' if ns else ''})")
    code = "\n".join(src)
    env = {}
    exec(compile(code, "<netlist>", "exec"), env)

    out = Compiled()
    out.step = env["step"]
    out.code = code
    out.in_names = [n for n, _ in h.inputs]
    out.in_widths = [len(s) for s in in_sigs]
    out.in_index = {n: k for k, n in enumerate(out.in_names)}
    out.probe_names = [n for n, _ in probes]
    out.probe_index = {n: k for k, n in enumerate(out.probe_names)}
    out.probe_widths = [len(x) if kind == "val" else None for kind, x in probe_nets]
    out.support = support
    out.init = tuple([cells[ci].init for ci in flops] + [0 for _ in srps]
                     + [tuple(cells[mi].init) for mi in mems])
    out.n_flops = len(flops)
    out.n_flop_bits = sum(len(cells[ci].data) for ci in flops)
    out.n_flops_total = sum(1 for c in cells if isinstance(c, nir.FlipFlop))
    out.n_cells = len(cells)
    out.n_cells_cone = len(needed)
    out.n_mems = len(mems)
    out.n_fixpoint_sccs = n_fixpoint_sccs
    # names of state elements, for readable witnesses
    names = {}
    for sig, val in nl.signals.items():
        for n in val:
            if not n.is_const and n.cell in state_cells and n.cell not in names:
                names[n.cell] = sig.name
    out.state_names = [names.get(ci, f"c{ci}") for ci in state_cells] + [f"mem{mi}" for mi in mems]

    def support_of(names_, through_state=True):
        """Input names in the (cell-level, hence over-approximated) cone of the given probes."""
        need, wk, bits = set(), [], set()

        def nn(net):
            if net.is_const:
                return
            if net.cell == 0:
                bits.add(net.bit)
            elif net.cell not in need:
                need.add(net.cell); wk.append(net.cell)

        for nme in names_:
            kind, x = probe_nets[out.probe_index[nme]]
            if kind == "mem":
                if x not in need:
                    need.add(x); wk.append(x)
            else:
                for n in x:
                    nn(n)
        while wk:
            ci = wk.pop()
            c = cells[ci]
            if isinstance(c, nir.Memory):
                for wp in wports.get(ci, ()):
                    if wp not in need:
                        need.add(wp); wk.append(wp)
                continue
            if isinstance(c, (nir.AsyncReadPort, nir.SyncReadPort)) and c.memory not in need:
                need.add(c.memory); wk.append(c.memory)
            if isinstance(c, (nir.FlipFlop, nir.SyncReadPort, nir.SyncWritePort)):
                if not through_state and not isinstance(c, nir.SyncWritePort):
                    continue
                for n in c.input_nets():
                    if n != c.clk:
                        nn(n)
            else:
                for n in c.input_nets():
                    nn(n)
        res = []
        for k, pos in enumerate(in_pos):
            if pos is not None and any(b in bits for b in range(pos[0], pos[0] + pos[1])):
                res.append(h.inputs[k][0])
        return res

    out.support_of = support_of
    return out
