"""C18 - names in a memory map are unique and prefix-free; conflicts are refused.

Engine H: BFS over histories of add_resource(name) / add_window(named) / add_window(anonymous, carrying
one or two names of its own, some absorbed from its own anonymous child) over a name alphabet with
shared prefixes, integers and the string '0' versus the integer 0.  Oracle: a set of tuples
(available iff no visible name is equal, a prefix or an extension), both directions; a refusal
changes nothing; all_resources() paths pairwise distinct.
"""
import hashlib
import json
import time

from ..history import hbfs
from ..common import finish, JOBS

PID = "C18"

NAMES = [("a",), ("a", "b"), ("a", "b", "0"), ("a", 0), ("a", "0"), ("b",), (0,), ("0",), (0, 1), ("0", "a"),
         ("b", "a"), ("a", "b", 0), (1,), ("b", 0, "a")]
ANON = [  # names carried by an anonymous window: direct resources, and (after '|') resources of its anonymous child
    ((("a",),), ()), ((("a", "b"),), ()), (((0,),), ()), ((("0",),), ()), ((("a", 0), ("b",)), ()),
    ((("b", "a"),), (("a", "b", "0"),)), ((("a", "0"),), ((0, 1),)), ((), (("b",), ("a", "b", 0))),
    (((1,), ("0", "a")), ()), ((("a", "b", "0"), ("a", "b", 0)), ()),
]
# anonymous windows that carry a NAMED sub-window (its name is absorbed; the names inside it are not)
ANON_NAMED = [(("b",), ("a",)), (("a", 0), ("a", 0)), ((1,), ("b", "a"))]      # (sub-window name, resource name inside it)
BAD = [(), ("",), (-1,), ("a", ""), None, ("a", 1.5)]      # not names at all (empty, empty part, negative, wrong type)


def letters(tier):
    L = [("res", n) for n in NAMES] + [("win", n) for n in NAMES] + [("anon", i) for i in range(len(ANON))]
    L += [("res_str", "a"), ("res_str", "b"), ("win_str", "0")]
    # windows with legal names that are refused for an ADDRESS reason: the names must stay available
    L += [("win_oob", NAMES[0]), ("win_oob", NAMES[3]), ("anon_oob", 0), ("anon_oob", 4), ("anon_oob", 5),
          ("win_ratio", NAMES[5]), ("anon_ratio", 2)]
    L += [("bad_res", i) for i in range(len(BAD))] + [("bad_win", 0), ("bad_win", 2)]
    # named windows whose INNER names equal / extend names that may be visible in the root: always legal
    L += [("win_inner", ("b", "a"), ("a",)), ("win_inner", (0, 1), (0,)), ("win_inner", ("a", "b"), ("a", "b", "0"))]
    L += [("anon_named", i) for i in range(len(ANON_NAMED))]
    # indices of more than one digit next to one-digit ones (10 sorts before 2 as text), as resources only
    L += [("res", n) for n in (("a", 10), ("a", 2), (10,), (2,))]
    # three levels of NAMED windows: outer / inner / "x"; the inner names repeat names the root may use itself
    L += [("win_deep", ("b",), ("a",)), ("win_deep", (1,), ("b",)), ("win_deep", ("a", "b"), ("a",))]
    return L


_POOL = []
_NEXT = [0]


def res():
    if not _POOL:
        from amaranth.lib import wiring

        class Res(wiring.Component):
            def __init__(self):
                super().__init__({})
        _POOL.extend(Res() for _ in range(256))
    r = _POOL[_NEXT[0] % len(_POOL)]
    _NEXT[0] += 1
    return r


def conflicts(name, visible):
    for v in visible:
        k = min(len(v), len(name))
        if all(type(x) is type(y) and x == y for x, y in zip(v[:k], name[:k])):
            return True
    return False


def visible_names(mm):
    out = set()
    for _, name, _ in mm.resources():
        out.add(tuple(name))
    for w, name, _ in mm.windows():
        if name is None:
            out |= visible_names(w)
        else:
            out.add(tuple(name))
    return out


def expected_paths(mm, prefix=()):
    out = []
    for _, name, _ in mm.resources():
        out.append(prefix + (tuple(name),))
    for w, name, _ in mm.windows():
        out += expected_paths(w, prefix if name is None else prefix + (tuple(name),))
    return out


def execute(history, parent_key):
    from amaranth_soc.memory import MemoryMap
    _NEXT[0] = 0
    root = MemoryMap(addr_width=10, data_width=8)
    visible = set()
    err = None
    last_raised = False
    last_names = set()
    shared = []                 # anonymous windows the root accepted: (map, the names it exports)
    for pos, op in enumerate(history):
        last = pos == len(history) - 1
        kind = op[0]
        exp_ok = None
        newnames = set()
        raised = None
        try:
            if kind in ("res", "res_str"):
                nm = op[1] if kind == "res" else (op[1],)
                exp_ok = not conflicts(nm, visible)
                newnames = {nm}
                root.add_resource(res(), name=op[1], size=1)
            elif kind in ("win", "win_str"):
                nm = op[1] if kind == "win" else (op[1],)
                exp_ok = not conflicts(nm, visible)
                newnames = {nm}
                w = MemoryMap(addr_width=1, data_width=8)
                w.add_resource(res(), name="x", size=1)
                root.add_window(w, name=op[1])
            elif kind == "anon":
                direct, inner = ANON[op[1]]
                w = MemoryMap(addr_width=3, data_width=8)
                for n in direct:
                    w.add_resource(res(), name=n, size=1)
                if inner:
                    c = MemoryMap(addr_width=1, data_width=8)
                    for n in inner:
                        c.add_resource(res(), name=n, size=1)
                    w.add_window(c)
                newnames = set(direct) | set(inner)
                exp_ok = not any(conflicts(n, visible) for n in newnames)
                root.add_window(w)
                shared.append((w, frozenset(newnames)))
            elif kind == "win_deep":
                nm, inner = op[1], op[2]
                exp_ok = not conflicts(nm, visible)
                newnames = {nm}
                c = MemoryMap(addr_width=1, data_width=8)
                c.add_resource(res(), name="x", size=1)
                w = MemoryMap(addr_width=2, data_width=8)
                w.add_window(c, name=inner)
                root.add_window(w, name=nm)
            elif kind == "win_inner":
                nm, inner = op[1], op[2]
                exp_ok = not conflicts(nm, visible)
                newnames = {nm}
                w = MemoryMap(addr_width=1, data_width=8)
                w.add_resource(res(), name=inner, size=1)
                root.add_window(w, name=nm)
            elif kind == "anon_named":
                subname, inner = ANON_NAMED[op[1]]
                c = MemoryMap(addr_width=1, data_width=8)
                c.add_resource(res(), name=inner, size=1)
                w = MemoryMap(addr_width=2, data_width=8)
                w.add_window(c, name=subname)
                newnames = {subname}
                exp_ok = not conflicts(subname, visible)
                root.add_window(w)
                shared.append((w, frozenset(newnames)))
            elif kind in ("win_oob", "win_ratio"):
                exp_ok = False if kind == "win_oob" else None      # inadmissible dense ratio: either (as in C02)
                newnames = {op[1]}
                if kind == "win_oob":
                    w = MemoryMap(addr_width=1, data_width=8)
                    w.add_resource(res(), name="x", size=1)
                    root.add_window(w, name=op[1], addr=1 << 10)
                else:
                    w = MemoryMap(addr_width=2, data_width=4)       # dense ratio 2 > window alignment 1
                    w.add_resource(res(), name="x", size=1)
                    root.add_window(w, name=op[1], sparse=False)
            elif kind in ("anon_oob", "anon_ratio"):
                exp_ok = False if kind == "anon_oob" else None
                direct, inner = ANON[op[1]]
                newnames = set(direct) | set(inner)
                w = MemoryMap(addr_width=3, data_width=8 if kind == "anon_oob" else 4)
                for n in direct:
                    w.add_resource(res(), name=n, size=1)
                if inner:
                    c = MemoryMap(addr_width=1, data_width=8 if kind == "anon_oob" else 4)
                    for n in inner:
                        c.add_resource(res(), name=n, size=1)
                    w.add_window(c)
                if kind == "anon_oob":
                    root.add_window(w, addr=1 << 10)
                else:
                    root.add_window(w, sparse=False)
            elif kind == "bad_res":
                exp_ok = False
                root.add_resource(res(), name=BAD[op[1]], size=1)
            elif kind == "bad_win":
                exp_ok = False
                root.add_window(MemoryMap(addr_width=1, data_width=8), name=BAD[op[1]])
        except (ValueError, TypeError) as e:
            raised = e
        except Exception as e:
            raised = e
            if last:
                err = dict(msg=f"{op}: {type(e).__name__}: {e}", signature=dict(kind="oracle", what="internal_error"))
        if exp_ok is None:
            # outcome not fixed by the property: accepted only if the names were available, and then they are visible
            if raised is None:
                if any(conflicts(n, visible) for n in newnames) and last:
                    err = dict(msg=f"{op}: accepted although one of its names conflicts; visible={sorted(map(str, visible))}",
                               signature=dict(kind="oracle", what="conflict_accepted"))
                visible |= newnames
        elif exp_ok and raised is None:
            visible |= newnames
        if last and err is None and exp_ok is not None:
            if exp_ok and raised is not None:
                err = dict(msg=f"{op}: a legal name was refused ({type(raised).__name__}: {str(raised)[:120]}); visible={sorted(map(str, visible))}",
                           signature=dict(kind="oracle", what="legal_refused"))
            elif not exp_ok and raised is None:
                err = dict(msg=f"{op}: a conflicting / invalid name (or impossible placement) was accepted; visible={sorted(map(str, visible))}",
                           signature=dict(kind="oracle", what="conflict_accepted"))
        last_raised = raised is not None
        last_names = newnames
        try:
            list(root.all_resources()); list(root.windows()); list(root.window_patterns())   # queries between the calls
        except Exception as e:
            if last:
                err = err or dict(msg=f"a query after {op} failed: {type(e).__name__}: {e}", signature=dict(kind="oracle", what="internal_error"))
    got = visible_names(root)
    canon = frozenset((tuple((type(p).__name__, p) for p in n)) for n in got)
    if err is None:
        if got != visible or {tuple(map(type, n)) for n in got} != {tuple(map(type, n)) for n in visible}:
            err = dict(msg=f"visible names {sorted(map(str, got))}, expected {sorted(map(str, visible))}",
                       signature=dict(kind="oracle", what="names"))
        paths = [tuple(tuple(p) for p in info.path) for info in root.all_resources()]
        flat = [tuple(x for part in p for x in part) for p in paths]
        if len(set(paths)) != len(paths) or len(set(map(repr, flat))) != len(flat):
            err = dict(msg=f"all_resources() reports duplicate paths: {paths}", signature=dict(kind="oracle", what="duplicate_paths"))
        elif sorted(map(repr, paths)) != sorted(map(repr, expected_paths(root))):
            err = dict(msg=f"all_resources() paths {paths} differ from the tree's names", signature=dict(kind="oracle", what="paths"))
        elif last_raised and parent_key is not None and canon != parent_key:
            err = dict(msg="a refused call changed the visible names", signature=dict(kind="oracle", what="atomicity"))
    if err is None and history and last_raised:
        # States are merged on the visible names, so a refused call that leaves HIDDEN traces would go
        # unnoticed by the search itself: look one step ahead here.  Every name of the refused call that
        # the reference says is still available must be accepted now.
        for n in sorted(last_names, key=repr):
            if not conflicts(n, visible):
                try:
                    root.add_resource(res(), name=n, size=1)
                    visible.add(n)
                except Exception as e:
                    err = dict(msg=f"after the refused call {history[-1]} the legal name {n} is refused: {type(e).__name__}",
                               signature=dict(kind="oracle", what="refusal_left_traces"))
                    break
    if err is None and shared:
        # The same (frozen) sub-map may be a window of a second parent.  There, exactly the names the window exports are
        # taken: names that only the FIRST parent uses are free, whatever was added to the first parent afterwards.
        w, exported = shared[0]
        p2 = MemoryMap(addr_width=10, data_width=8)
        usable = True
        try:
            p2.add_window(w)
        except (ValueError, TypeError):
            usable = False          # a library may refuse to give one map two parents: then there is nothing to compare
        except Exception as e:
            err = dict(msg=f"a second, empty parent offered the anonymous window the first parent accepted: {type(e).__name__}: {str(e)[:100]}",
                       signature=dict(kind="oracle", what="internal_error"))
        taken2 = set(exported)
        for n in (sorted(visible, key=repr) if usable else ()):
            if err is not None:
                break
            legal = not conflicts(n, taken2)
            try:
                p2.add_resource(res(), name=n, size=1)
                ok = True
            except (ValueError, TypeError):
                ok = False
            except Exception as e:
                err = dict(msg=f"second parent, name {n}: {type(e).__name__}: {e}", signature=dict(kind="oracle", what="internal_error"))
                break
            if ok != legal:
                err = dict(msg=f"a second parent holding only the anonymous window with names {sorted(map(str, exported))} "
                               f"{'refuses the legal' if legal else 'accepts the conflicting'} name {n} "
                               f"(names of the first parent: {sorted(map(str, visible))})",
                           signature=dict(kind="oracle", what="second_parent"))
            elif ok:
                taken2.add(n)
    return canon, err


def digest():
    r = hbfs(letters("quick"), execute, max_depth=2, jobs=1)
    return json.dumps([r.states, r.transitions, r.level_sizes])


def replay(data):
    def tup(x):
        return tuple(tup(y) for y in x) if isinstance(x, list) else x
    hist = tuple(tup(op) for op in data["history"])
    parent, _ = execute(hist[:-1], None)
    _, err = execute(hist, parent)
    return err, len(hist)


def main(tier, seed):
    t0 = time.time()
    depth = 5 if tier == "quick" else 9
    L = letters(tier)
    hr = hbfs(L, execute, max_depth=depth, jobs=JOBS, chunk=16)
    res_ = dict(cfg=dict(depth=depth))
    if hr.violation:
        v = hr.violation
        res_["violation"] = dict(kind="history", err=v["err"], history=v["history"], signature=v["err"].get("signature", {}))
    cov = dict(states=hr.states, transitions=hr.transitions, traces_validated_against_impl=hr.transitions,
               max_depth=hr.max_depth, letters=len(L), levels=hr.level_sizes, outcomes=hr.outcomes,
               samples=[dict(history=h) for h in hr.samples] or [dict(history=[])], exhaustive=False,
               rule=(f"all histories up to depth {depth} over {len(L)} letters (14 names with shared prefixes, ints, '0' vs 0; named "
                     "windows; 10 anonymous windows incl. nested anonymous children; invalid names); states merged on the set of visible names"))
    return finish(PID, tier, seed, "model_checking", cov, ASSUMPTIONS, t0, [res_])


ASSUMPTIONS = [
    "depth-bounded histories over a fixed name alphabet",
    "two histories with the same set of visible (typed) names have the same futures: address space is never exhausted "
    "(10 address bits, at most 5 items) and acceptance depends on names only",
]
