"""C20 - ports have the direction their role implies; signatures round-trip.

Finite grids, enumerated completely (no state graph: claimed as exhaustive exploration):
 * every signature class over a parameter grid: create() round trip, member presence and widths,
   ALL PAIRS a == b  <=>  params(a) == params(b);
 * every component class over a configuration grid: wiring.connect() of the complementary standard
   interface BUILT FROM THE CONSTRUCTOR PARAMETERS to each bus-facing port succeeds (the arbiter's
   output is connected to target ports).
"""
import itertools
import time

from amaranth import Module, unsigned, signed
from amaranth.hdl import Shape
from amaranth.lib import wiring, enum as aenum

from ..common import finish, is_refusal, describe_exc

PID = "C20"
FEATS = ("err", "rty", "stall", "lock", "cti", "bte")


class E2(aenum.Enum, shape=unsigned(2)):
    A = 0
    B = 3


class ES(aenum.Enum, shape=signed(2)):
    A = -1
    B = 1


def fresh_int(n):
    """An int object of its own (CPython shares small ints and constants; equality must not rely on identity)."""
    return int(str(n))


def viol(msg, what, **kw):
    return dict(kind="grid", err=dict(msg=msg, **kw), signature=dict(kind="oracle", what=what))


def check_grid(label, items, out, stats):
    """items: [(params, make)] ; params hashable canonical tuple; make() -> signature"""
    sigs = []
    for params, make, members in items:
        try:
            s = make()
        except Exception as e:
            out.append(viol(f"{label}{params}: constructor raised {type(e).__name__}: {e}", "constructor", params=params))
            continue
        sigs.append((params, s))
        stats["evaluations"] += 1
        # create() round trip
        try:
            iface = s.create()
            if not (iface.signature == s) or not (s == iface.signature):
                out.append(viol(f"{label}{params}: create().signature != signature", "roundtrip", params=params))
            s2 = make()
            if not (s == s2):
                out.append(viol(f"{label}{params}: two signatures with the same parameters are unequal", "eq_same", params=params))
        except Exception as e:
            out.append(viol(f"{label}{params}: create(): {type(e).__name__}: {e}", "create", params=params))
            continue
        # members
        got = {}
        for name, mem in s.members.items():
            if mem.is_port:
                got[name] = (Shape.cast(mem.shape).width, Shape.cast(mem.shape).signed, mem.flow.name)
        if members is not None and got != members:
            out.append(viol(f"{label}{params}: members {got}, expected {members}", "members", params=params))
        for name in (members or {}):
            if not hasattr(iface, name):
                out.append(viol(f"{label}{params}: created interface lacks {name}", "members", params=params))
    # all pairs
    for (pa, a), (pb, b) in itertools.combinations(sigs, 2):
        stats["pairs"] += 1
        try:
            eq = (a == b)
            eq2 = (b == a)
        except Exception as e:
            out.append(viol(f"{label}: comparing {pa} with {pb}: {type(e).__name__}", "eq_raises"))
            continue
        if eq != (pa == pb) or eq2 != (pa == pb):
            out.append(viol(f"{label}: {pa} == {pb} is {eq}/{eq2}, parameters say {pa == pb}", "eq_pair", a=pa, b=pb))
            if len(out) > 20:
                return sigs
    return sigs


def signature_grids(tier, out, stats):
    from amaranth_soc import csr, wishbone, event, gpio
    allsigs = []
    # csr.Signature
    items = []
    for aw, dw in list(itertools.product((1, 2, 3, 4), (1, 2, 3, 4, 8, 16))) + [(9, 8), (10, 8), (16, 32), (3, 257), (300, 300)]:
        mem = dict(addr=(aw, False, "Out"), r_data=(dw, False, "In"), r_stb=(1, False, "Out"),
                   w_data=(dw, False, "Out"), w_stb=(1, False, "Out"))
        items.append((("csr", aw, dw), (lambda aw=aw, dw=dw: csr.Signature(addr_width=fresh_int(aw), data_width=fresh_int(dw))), mem))
    allsigs += check_grid("csr.Signature", items, out, stats)
    # csr.Element.Signature
    items = []
    for w, acc in itertools.product((0, 1, 2, 3, 8, 64, 256, 257, 288, 1000), ("r", "w", "rw")):
        mem = {}
        if "r" in acc:
            mem.update(r_data=(w, False, "In"), r_stb=(1, False, "Out"))
        if "w" in acc:
            mem.update(w_data=(w, False, "Out"), w_stb=(1, False, "Out"))
        items.append((("element", w, acc), (lambda w=w, acc=acc: csr.Element.Signature(fresh_int(w), str(acc))), mem))
    allsigs += check_grid("csr.Element.Signature", items, out, stats)
    # csr.FieldPort.Signature: parameters = (cast shape, access)
    shapes = [("u1", unsigned(1)), ("int1", 1), ("u2", unsigned(2)), ("range4", range(4)), ("s2", signed(2)),
              ("range-2..2", range(-2, 2)), ("enum_u2", E2), ("enum_s2", ES), ("u8", unsigned(8)), ("s8", signed(8)),
              ("u0", unsigned(0)), ("u257", unsigned(257)), ("s257", signed(257)), ("u300", unsigned(300))]
    items = []
    for (sn, sh), acc in itertools.product(shapes, ("r", "w", "rw", "nc")):
        c = Shape.cast(sh)
        mem = dict(r_data=(c.width, c.signed, "In"), r_stb=(1, False, "Out"), w_data=(c.width, c.signed, "Out"),
                   w_stb=(1, False, "Out"))
        items.append((("fieldport", c.width, c.signed, acc), (lambda sh=sh, acc=acc: csr.FieldPort.Signature(type(sh)(fresh_int(sh.width), sh.signed) if isinstance(sh, Shape) else sh, acc)), mem))
    # (several entries share parameters on purpose: they must compare equal)
    allsigs += check_grid("csr.FieldPort.Signature", items, out, stats)
    # wishbone.Signature
    items = []
    geos = [(8, 8), (16, 8), (16, 16), (32, 8), (32, 32), (64, 16)] if tier == "quick" else \
           [(8, 8), (16, 8), (16, 16), (32, 8), (32, 16), (32, 32), (64, 8), (64, 16), (64, 32), (64, 64)]
    for aw in (0, 1, 2) if tier != "quick" else (0, 2):
        for dw, gran in geos:
            for bits in itertools.product((0, 1), repeat=6):
                feats = tuple(f for f, b in zip(FEATS, bits) if b)
                mem = dict(adr=(aw, False, "Out"), dat_w=(dw, False, "Out"), dat_r=(dw, False, "In"),
                           sel=(dw // gran, False, "Out"), cyc=(1, False, "Out"), stb=(1, False, "Out"),
                           we=(1, False, "Out"), ack=(1, False, "In"))
                for f in feats:
                    mem[f] = dict(err=(1, False, "In"), rty=(1, False, "In"), stall=(1, False, "In"), lock=(1, False, "Out"),
                                  cti=(3, False, "Out"), bte=(2, False, "Out"))[f]
                items.append((("wb", aw, dw, gran, feats),
                              (lambda aw=aw, dw=dw, gran=gran, feats=feats: wishbone.Signature(addr_width=aw, data_width=dw, granularity=gran, features=feats)),
                              mem))
    # default granularity = data width must equal the explicit one
    items.append((("wb", 1, 16, 16, ()), (lambda: wishbone.Signature(addr_width=1, data_width=16)), None))
    items.append((("wb", 1, 16, 16, ("err",)), (lambda: wishbone.Signature(addr_width=1, data_width=16, features={wishbone.Feature.ERR})), None))
    allsigs += check_grid("wishbone.Signature", items, out, stats)
    # the caller's feature collection is only read at construction: changing it afterwards changes nothing
    for mk, grow in ((set, lambda c, v: c.add(v)), (list, lambda c, v: c.append(v))):
        for base in ((), ("err",), ("err", "cti"), ("lock", "stall")):
            for as_enum in (False, True):
                for target in ("signature", "interface", "decoder", "arbiter"):
                    extra = "rty"
                    coll = mk((wishbone.Feature(f) if as_enum else f) for f in base)
                    kw = dict(addr_width=2, data_width=16, granularity=8, features=coll)
                    try:
                        obj = dict(signature=lambda: wishbone.Signature(**kw), interface=lambda: wishbone.Interface(path=("x",), **kw).signature,
                                   decoder=lambda: wishbone.Decoder(**kw).bus.signature, arbiter=lambda: wishbone.Arbiter(**kw).bus.signature)[target]()
                        if target in ("decoder",):
                            obj = obj.flip() if not isinstance(obj, wishbone.Signature) else obj
                        grow(coll, wishbone.Feature(extra) if as_enum else extra)
                        fresh = wishbone.Signature(addr_width=2, data_width=16, granularity=8, features=base)
                        stats["evaluations"] += 1
                        feats_now = {wishbone.Feature(f) for f in obj.features}
                        if feats_now != {wishbone.Feature(f) for f in base} or extra in obj.members or not (obj == fresh) or not (fresh == obj) \
                                or not (obj.create().signature == fresh):
                            out.append(viol(f"wishbone {target} built from features={base} given as a {mk.__name__}: after the caller added "
                                            f"{extra!r} to its own collection the signature reports features {sorted(f.value for f in feats_now)} "
                                            f"(members {sorted(obj.members)}) and == fresh signature is {obj == fresh}", "param_aliasing"))
                    except Exception as e:
                        out.append(viol(f"wishbone {target} with features={base} as {mk.__name__}: {type(e).__name__}: {e}", "param_aliasing"))
    # event.Source.Signature
    items = [((("source", t)), (lambda t=t: event.Source.Signature(trigger=t)), dict(i=(1, False, "Out"), trg=(1, False, "In")))
             for t in ("level", "rise", "fall")]
    allsigs += check_grid("event.Source.Signature", items, out, stats)
    # gpio.PinSignature (no parameters)
    items = [(("pin",), (lambda: gpio.PinSignature()), dict(i=(1, False, "In"), o=(1, False, "Out"), oe=(1, False, "Out"))),
             (("pin",), (lambda: gpio.PinSignature()), None)]
    allsigs += check_grid("gpio.PinSignature", items, out, stats)
    # signatures of different classes with IDENTICAL members, and plain wiring.Signature look-alikes: never equal
    for w in (1, 2, 8):
        pairs = [(csr.Element.Signature(w, "rw"), csr.FieldPort.Signature(unsigned(w), "rw")),
                 (csr.Signature(addr_width=w, data_width=w), wiring.Signature(dict(csr.Signature(addr_width=w, data_width=w).members))),
                 (event.Source.Signature(trigger="rise"), wiring.Signature(dict(event.Source.Signature(trigger="rise").members))),
                 (gpio.PinSignature(), wiring.Signature(dict(gpio.PinSignature().members)))]
        for a, b in pairs:
            stats["pairs"] += 1
            if a == b or b == a:
                out.append(viol(f"signatures of different classes compare equal: {a!r} / {b!r}", "eq_cross_class"))
    # across classes: never equal
    reps = {}
    for p, s in allsigs:
        reps.setdefault(p[0], (p, s))
    for (pa, a), (pb, b) in itertools.combinations(reps.values(), 2):
        stats["pairs"] += 1
        if a == b or b == a:
            out.append(viol(f"signatures of different classes compare equal: {pa} / {pb}", "eq_cross_class"))


def connect_ok(ini, port, what, out, stats, expect=True):
    stats["connects"] += 1
    m = Module()
    try:
        wiring.connect(m, ini, port)
    except Exception as e:
        out.append(viol(f"connect() to {what} failed: {type(e).__name__}: {str(e)[:200]}", "connect", port=what))


def component_grid(tier, out, stats):
    from amaranth_soc import csr, wishbone, event, gpio
    from amaranth_soc.csr.wishbone import WishboneCSRBridge
    from amaranth_soc.csr.event import EventMonitor
    from amaranth_soc.wishbone.sram import WishboneSRAM
    from amaranth_soc.memory import MemoryMap
    from ..gen.muxlayouts import layouts, make_map
    from amaranth.utils import ceil_log2

    def attempt(label, fn):
        try:
            fn()
        except Exception as e:
            if not is_refusal(e):
                out.append(viol(f"{label}: {type(e).__name__}: {str(e)[:200]}", "internal_error"))
            else:
                stats["refused"] += 1

    # csr.Multiplexer / csr.Bridge over layouts
    for lay in layouts("quick")[::(7 if tier == "quick" else 2)]:
        def f(lay=lay):
            mm, _ = make_map(lay)
            mux = csr.Multiplexer(mm, shadow_overlaps=lay["ov"])
            connect_ok(csr.Interface(addr_width=lay["aw"], data_width=lay["dw"]), mux.bus, f"csr.Multiplexer{(lay['aw'], lay['dw'])}.bus", out, stats)
        attempt("csr.Multiplexer", f)
    for aw, dw in itertools.product((1, 2, 4), (1, 8, 16)):
        def f(aw=aw, dw=dw):
            d = csr.Decoder(addr_width=aw, data_width=dw)
            connect_ok(csr.Interface(addr_width=aw, data_width=dw), d.bus, f"csr.Decoder({aw},{dw}).bus", out, stats)
        attempt("csr.Decoder", f)
    for aw, dw, g in ((3, 8, 8), (4, 16, 8), (2, 32, 8)):
        def f(aw=aw, dw=dw, g=g):
            from amaranth_soc.csr import action

            class R(csr.Register, access="rw"):
                def __init__(self):
                    super().__init__({"f": csr.Field(action.RW, 9)})
            b = csr.Builder(addr_width=aw, data_width=dw, granularity=g)
            b.add("x", R())
            with b.Index(3):
                b.add("y", R())
            br = csr.Bridge(b.as_memory_map())
            connect_ok(csr.Interface(addr_width=aw, data_width=dw), br.bus, f"csr.Bridge({aw},{dw}).bus", out, stats)
            for ratio in (1, 2, 4):
                if dw * ratio > 64 or dw not in (8, 16, 32, 64):
                    continue
                wb = WishboneCSRBridge(br.bus, data_width=dw * ratio)
                ini = wishbone.Interface(addr_width=max(0, aw - (ratio.bit_length() - 1)), data_width=dw * ratio, granularity=dw)
                connect_ok(ini, wb.wb_bus, f"WishboneCSRBridge(csr {aw}x{dw}, ratio {ratio}).wb_bus", out, stats)
        attempt("csr.Bridge / WishboneCSRBridge", f)
    # event monitor
    for n, dw, al in list(itertools.product((0, 1, 3, 9), (1, 8, 16), (0, 2))) + [(3, 1, 1), (5, 1, 1), (17, 8, 1), (20, 8, 1), (24, 8, 2),
                                                                                 (33, 8, 1), (40, 16, 1), (65, 32, 1), (70, 8, 3)]:
        def f(n=n, dw=dw, al=al):
            em = event.EventMap()
            for k in range(n):
                em.add(event.Source(path=(f"s{k}",)))
            mon = EventMonitor(em, data_width=dw, alignment=al)
            # (the address width is not a constructor parameter of the event monitor: it is taken from the
            #  published memory map, whose layout is C14's subject)
            aw = mon.bus.memory_map.addr_width
            connect_ok(csr.Interface(addr_width=aw, data_width=dw), mon.bus, f"csr.EventMonitor(events={n}, dw={dw}, align={al}).bus", out, stats)
            m = Module()
            # the monitor's own source output feeds an event map of the next level
            if mon.src.signature.flip() != event.Source.Signature(trigger="level").flip():
                out.append(viol("EventMonitor.src is not an output event.Source port", "connect"))
        attempt("csr.EventMonitor", f)
    # gpio
    for pins, aw, dw in ((1, 2, 8), (4, 2, 8), (9, 4, 8), (8, 3, 16)):
        def f(pins=pins, aw=aw, dw=dw):
            p = gpio.Peripheral(pin_count=pins, addr_width=aw, data_width=dw)
            connect_ok(csr.Interface(addr_width=aw, data_width=dw), p.bus, f"gpio.Peripheral({pins},{aw},{dw}).bus", out, stats)
        attempt("gpio.Peripheral", f)
    # wishbone SRAM / Decoder / Arbiter
    featsets = [(), FEATS, ("err",), ("stall", "lock"), ("cti",), ("bte",), ("rty", "bte")]
    for dw, gran in ((8, 8), (16, 8), (32, 8), (32, 32), (64, 16)):
        for size in (2, 8):
            def f(dw=dw, gran=gran, size=size):
                if size * gran < dw:
                    return
                s = WishboneSRAM(size=size, data_width=dw, granularity=gran)
                aw = ((size * gran) // dw).bit_length() - 1
                connect_ok(wishbone.Interface(addr_width=aw, data_width=dw, granularity=gran), s.wb_bus, f"WishboneSRAM({size},{dw},{gran}).wb_bus", out, stats)
            attempt("WishboneSRAM", f)
        for aw, feats in itertools.product((0, 1, 3), featsets):
            def f(dw=dw, gran=gran, aw=aw, feats=feats):
                d = wishbone.Decoder(addr_width=aw, data_width=dw, granularity=gran, features=feats)
                connect_ok(wishbone.Interface(addr_width=aw, data_width=dw, granularity=gran, features=feats), d.bus,
                           f"wishbone.Decoder({aw},{dw},{gran},{feats}).bus", out, stats)
                a = wishbone.Arbiter(addr_width=aw, data_width=dw, granularity=gran, features=feats)
                connect_ok(a.bus, d.bus, f"wishbone.Arbiter({aw},{dw},{gran},{feats}).bus -> Decoder.bus", out, stats)
                if a.bus.signature != wishbone.Signature(addr_width=aw, data_width=dw, granularity=gran, features=feats):
                    out.append(viol(f"wishbone.Arbiter({aw},{dw},{gran},{feats}).bus has signature {a.bus.signature!r}", "connect"))
            attempt("wishbone.Decoder/Arbiter", f)
    # the same ports when every optional constructor parameter is given, and after the component has been populated
    # (add() calls must not change what the component's own port looks like)
    for dw, gran, aw, feats in ((16, 8, 3, ()), (32, 8, 2, ("err", "rty")), (8, 8, 3, FEATS), (32, 16, 3, ("stall", "lock", "err"))):
        def f(dw=dw, gran=gran, aw=aw, feats=feats):
            want = wishbone.Signature(addr_width=aw, data_width=dw, granularity=gran, features=feats)
            for name in ("dec", ("top", "dec")):
                try:
                    d = wishbone.Decoder(addr_width=aw, data_width=dw, granularity=gran, features=feats, alignment=1, name=name)
                except TypeError:
                    if isinstance(name, tuple):
                        continue          # a tuple name may be refused
                    raise
                for k in range(2):
                    sub = wishbone.Interface(addr_width=1, data_width=dw, granularity=gran, features=feats, path=(f"s{k}",))
                    sub.memory_map = MemoryMap(addr_width=max(1, 1 + ceil_log2(dw // gran)), data_width=gran)
                    d.add(sub)
                connect_ok(wishbone.Interface(addr_width=aw, data_width=dw, granularity=gran, features=feats), d.bus,
                           f"wishbone.Decoder({aw},{dw},{gran},{feats}, alignment=1, name={name!r}) after two add() calls", out, stats)
            a = wishbone.Arbiter(addr_width=aw, data_width=dw, granularity=gran, features=feats)
            for k in range(3):
                a.add(wishbone.Interface(addr_width=aw, data_width=dw, granularity=gran, features=feats, path=(f"i{k}",)))
            tgt = wishbone.Decoder(addr_width=aw, data_width=dw, granularity=gran, features=feats)
            connect_ok(a.bus, tgt.bus, f"wishbone.Arbiter({aw},{dw},{gran},{feats}).bus after three add() calls -> Decoder.bus", out, stats)
            if a.bus.signature != want or not (want == a.bus.signature) or a.bus.signature.create().signature != want:
                out.append(viol(f"wishbone.Arbiter({aw},{dw},{gran},{feats}).bus after add(): signature {a.bus.signature!r} is not "
                                f"the one its constructor parameters define", "connect"))
        attempt("populated wishbone.Decoder/Arbiter", f)
    for aw, dw in ((4, 8), (5, 16)):
        def f(aw=aw, dw=dw):
            d = csr.Decoder(addr_width=aw, data_width=dw, alignment=1)
            for k in range(2):
                sub = csr.Interface(addr_width=2, data_width=dw, path=(f"s{k}",))
                sub.memory_map = MemoryMap(addr_width=2, data_width=dw)
                d.add(sub, name=f"w{k}")
            connect_ok(csr.Interface(addr_width=aw, data_width=dw), d.bus, f"csr.Decoder({aw},{dw}, alignment=1).bus after two add() calls", out, stats)
            em = event.EventMap()
            em.add(event.Source(path=("s",)))
            mon = EventMonitor(em, trigger="rise", data_width=dw, alignment=1, name="mon")
            connect_ok(csr.Interface(addr_width=mon.bus.memory_map.addr_width, data_width=dw), mon.bus,
                       f"csr.EventMonitor(trigger='rise', dw={dw}, alignment=1, name='mon').bus", out, stats)
            if dw in (8, 16):
                wb = WishboneCSRBridge(d.bus, data_width=dw * 2, name="br")
                connect_ok(wishbone.Interface(addr_width=aw - 1, data_width=dw * 2, granularity=dw), wb.wb_bus,
                           f"WishboneCSRBridge(csr {aw}x{dw}, data_width={dw * 2}, name='br').wb_bus", out, stats)
        attempt("populated csr.Decoder / named monitor / named bridge", f)
    # default granularity of decoder/arbiter
    def f():
        d = wishbone.Decoder(addr_width=0, data_width=16)
        connect_ok(wishbone.Interface(addr_width=0, data_width=16), d.bus, "wishbone.Decoder(0,16).bus", out, stats)
        a = wishbone.Arbiter(addr_width=2, data_width=32)
        s = WishboneSRAM(size=4, data_width=32)
        connect_ok(a.bus, s.wb_bus, "wishbone.Arbiter(2,32).bus -> WishboneSRAM.wb_bus", out, stats)
    attempt("defaults", f)


def replay(data):
    out, stats = [], dict(evaluations=0, pairs=0, connects=0, refused=0)
    signature_grids("quick", out, stats)
    component_grid("quick", out, stats)
    want = data.get("signature", {}).get("what")
    for v in out:
        if v["signature"]["what"] == want:
            return v["err"], "grid"
    return (out[0]["err"], "grid") if out else (None, None)


def main(tier, seed):
    t0 = time.time()
    out, stats = [], dict(evaluations=0, pairs=0, connects=0, refused=0)
    signature_grids(tier, out, stats)
    component_grid(tier, out, stats)
    # one report per distinct kind of failure
    seen, viols = set(), []
    for v in out:
        k = (v["signature"]["what"], v["err"]["msg"].split("(")[0][:40])
        if k not in seen:
            seen.add(k); viols.append(v)
    cov = dict(evaluations=stats["evaluations"] + stats["pairs"] + stats["connects"],
               distinct_nontrivial=stats["evaluations"] + stats["connects"],
               signatures=stats["evaluations"], pairs_compared=stats["pairs"], connects=stats["connects"],
               configs_refused=stats["refused"], exhaustive=True,
               rule=("distinct = one per (signature class, parameter tuple) and per (component class, configuration, port); "
                     "all of them are non-trivial (each is a different parameterisation); pairs are counted separately"),
               samples=[dict(signature="wishbone.Signature(addr_width=2, data_width=32, granularity=8, features=('err','cti'))",
                             checks=["create() round trip", "members", "== against every other signature of the grid"]),
                        dict(connect="wishbone.Interface(0,16) -> wishbone.Decoder(addr_width=0, data_width=16).bus")])
    res = dict(cfg=None, violations=viols)
    if stats["refused"] > 40 or stats["connects"] < 200:
        res["tool_error"] = f"vacuity guard: {stats['refused']} component configurations refused, {stats['connects']} connect() checks made"
    return finish(PID, tier, seed, "exploration", cov, ASSUMPTIONS, t0, [res])


ASSUMPTIONS = [
    "parameter grids are bounded (see the module); wiring.connect() of Amaranth 0.5.10 is the judge of port compatibility",
    "the complementary interface is built from the constructor parameters, never copied from the component's own signature",
]
