"""C14 - CSR event monitor: enable reads back, pending is read / write-one-to-clear.

Cycle-level BFS of the real csr.EventMonitor (attached through a csr.Decoder, by wiring.connect() of
an initiator interface, or driven directly) under a CSR-conforming driver x EVERY source-input vector
in every cycle.  Oracle: RefCSR at the addresses memory_map.all_resources() reports, composed with the
monitor reference (enable mask, sticky pending bits, trigger wins over clear).
"""
import itertools
import time

from amaranth import Module

from ..netlist import Harness
from ..hw import explore_hw, aggregate, rederive
from ..common import run_configs, finish
from ..ref.csr import RefCSR
from ..ref.csrdrv import conforming_moves, full_value

PID = "C14"
MODES = ("level", "rise", "fall")


def build(cfg):
    from amaranth.lib import wiring
    from amaranth_soc import csr, event
    from amaranth_soc.csr.event import EventMonitor
    modes = cfg["modes"]
    dw = cfg["dw"]
    srcs = [event.Source(trigger=t, path=(f"s{k}",)) for k, t in enumerate(modes)]
    emap = event.EventMap()
    for k in cfg.get("order") or range(len(srcs)):
        emap.add(srcs[k])
    mon = EventMonitor(emap, trigger=cfg.get("trigger", "level"), data_width=dw, alignment=cfg.get("align", 0))
    m = Module()
    m.submodules.mon = mon
    att = cfg["attach"]
    if att == "dec":
        dec = csr.Decoder(addr_width=mon.bus.addr_width + 1, data_width=dw)
        if cfg.get("dec_offset"):
            dec.align_to(mon.bus.addr_width)
            pad = csr.Interface(addr_width=mon.bus.addr_width, data_width=dw, path=("pad",))
            from amaranth_soc.memory import MemoryMap
            pad.memory_map = MemoryMap(addr_width=mon.bus.addr_width, data_width=dw)
            dec.add(pad, name="pad")
        dec.add(mon.bus, name="mon")
        m.submodules.dec = dec
        bus = dec.bus
        mmap = dec.bus.memory_map
        extra_in = [("pad_r_data", pad.r_data)] if cfg.get("dec_offset") else []
    elif att == "connect":
        bus = csr.Signature(addr_width=mon.bus.addr_width, data_width=dw).create(path=("ini",))
        wiring.connect(m, bus, mon.bus)
        mmap = mon.bus.memory_map
        extra_in = []
    else:
        bus = mon.bus
        mmap = mon.bus.memory_map
        extra_in = []
    inputs = [("addr", bus.addr), ("r_stb", bus.r_stb), ("w_stb", bus.w_stb), ("w_data", bus.w_data)]
    inputs += [(f"i{k}", s.i) for k, s in enumerate(srcs)] + extra_in
    probes = [("r_data", bus.r_data), ("irq", mon.src.i)]
    regs = {}
    for info in mmap.all_resources():
        regs[str(info.path[-1][-1])] = dict(start=info.start, end=info.end, width=info.resource.element.width,
                                            path=[list(map(str, p)) for p in info.path])
    meta = dict(regs=regs, aw=bus.addr_width, index=[emap.index(s) for s in srcs], n=emap.size,
                src_trigger=mon.src.trigger.value)
    return Harness(m, inputs, probes, meta)


class Observer:
    """obs = (csr state, enable, pending, prev inputs of edge sources)"""
    def __init__(self, cfg, h, comp):
        self.cfg = cfg
        self.modes = cfg["modes"]
        self.n = n = len(self.modes)
        self.dw = cfg["dw"]
        regs = h.meta["regs"]
        self.meta_err = None
        if set(regs) != {"enable", "pending"} or any(r["width"] != n for r in regs.values()) or h.meta["n"] != n:
            self.meta_err = f"memory map reports {regs}"
            regs = dict(enable=dict(start=0, end=1, width=n), pending=dict(start=1, end=2, width=n))
        need = max(1, -(-n // self.dw))
        for r in regs.values():
            if r["end"] - r["start"] < need:
                self.meta_err = f"register range too small for {n} events: {regs}"
        if h.meta["src_trigger"] != cfg.get("trigger", "level"):
            self.meta_err = f"monitor's own source has trigger {h.meta['src_trigger']}"
        self.K_EN, self.K_PE = 0, 1
        self.ref = RefCSR([(regs["enable"]["start"], regs["enable"]["end"], n, True, True),
                           (regs["pending"]["start"], regs["pending"]["end"], n, True, True)], self.dw)
        self.index = h.meta["index"]
        ii, pi = comp.in_index, comp.probe_index
        self.ii, self.pi = ii, pi
        self.order = comp.in_names
        self.init = (RefCSR.INIT, 0, 0, 0)
        aw = h.meta["aw"]
        mapped = set(self.ref.lut)
        self.unmapped = next((a for a in range((1 << aw) - 1, -1, -1) if a not in mapped), None)
        if cfg.get("wvals"):
            self.wvals = list(cfg["wvals"])
        else:
            self.wvals = list(range(1 << self.dw))
        if isinstance(cfg.get("src_vectors"), (list, tuple)):
            self.srcv = list(cfg["src_vectors"])
        elif cfg.get("src_vectors") == "walking":
            self.srcv = [0] + [1 << k for k in range(n)] + [(1 << n) - 1]
        else:
            self.srcv = list(range(1 << n))
        self._cache = {}

    def letters(self, obs):
        st = obs[0]
        key = (st[0] and st[0][:2], st[1] and st[1][:2])
        if key not in self._cache:
            lean = self.cfg.get("driver") == "lean"
            moves = conforming_moves(self.ref, st, self.wvals, None if lean else self.unmapped,
                                     misdirected=not lean, both=not lean)
            out = []
            for addr, r, w, wd in moves:
                for sv in self.srcv:
                    d = dict(addr=addr, r_stb=r, w_stb=w, w_data=wd)
                    for k in range(self.n):
                        d[f"i{k}"] = (sv >> k) & 1
                    out.append(tuple(d.get(nme, 0) for nme in self.order))
            self._cache[key] = out
        return self._cache[key]

    def observe(self, obs, letter, outs):
        if self.meta_err:
            return dict(msg=self.meta_err, signature=dict(kind="metadata")), obs
        st, enable, pending, prev = obs
        ii, pi = self.ii, self.pi
        addr, r, w, wd = letter[ii["addr"]], letter[ii["r_stb"]], letter[ii["w_stb"]], letter[ii["w_data"]]
        vals = (enable, pending)
        exp_r_stb, exp_rd, exp_w, nst = self.ref.step(st, addr, r, w, wd, lambda k: vals[k])
        got = outs[pi["r_data"]]
        if exp_rd[0] == "zero" and got != 0:
            return dict(msg=f"bus r_data={got:#x}, expected zero", signature=dict(kind="oracle", what="r_data_zero")), obs
        if exp_rd[0] == "val" and got != exp_rd[1]:
            return dict(msg=f"bus r_data={got:#x}, expected {exp_rd[1]:#x} (enable={enable:#b} pending={pending:#b})",
                        signature=dict(kind="oracle", what="r_data")), obs
        irq = 1 if (enable & pending) else 0
        if outs[pi["irq"]] != irq:
            return dict(msg=f"interrupt line={outs[pi['irq']]}, expected {irq} (enable={enable:#b} pending={pending:#b})",
                        signature=dict(kind="oracle", what="irq")), obs
        trg = 0
        nprev = 0
        for k, mode in enumerate(self.modes):
            i = letter[ii[f"i{k}"]]
            p = (prev >> k) & 1
            if mode == "level":
                t = i
            elif mode == "rise":
                t = i & (1 - p); nprev |= i << k
            else:
                t = (1 - i) & p; nprev |= i << k
            trg |= t << self.index[k]
        clear = 0
        nen = enable
        if exp_w is not None:
            k, chunks = exp_w
            complete, v = full_value(self.ref, k, chunks)
            if not complete:
                return dict(msg="internal: conforming driver produced an incomplete write"), obs
            if k == self.K_EN:
                nen = v
            else:
                clear = v
        npend = (pending & ~clear) | trg
        return None, (nst, nen, npend, nprev)


def configs(tier):
    quick = tier == "quick"
    out = []

    def add(**kw):
        out.append(kw)

    for att in ("dec", "connect", "direct"):
        add(modes=(), dw=1, attach=att)
        add(modes=(), dw=8, attach=att, wvals=(0, 0xFF))
        for dw in (1, 2, 3):
            for modes in itertools.product(MODES, repeat=1):
                for align in (0, 1, 2) if att == "direct" else (0,):
                    if align > {1: 2, 2: 1, 3: 0}[dw]:
                        continue          # padded multi-chunk registers with wide data: thorough only (below)
                    add(modes=modes, dw=dw, attach=att, align=align)
        # two events: every mode pair on a 1-bit bus (two chunks) for one attachment, a few for the others
        pairs = list(itertools.product(MODES, repeat=2))
        for modes in (pairs if att == "dec" else pairs[1::3]):
            add(modes=modes, dw=1, attach=att)
        add(modes=("rise", "level"), dw=2, attach=att, align=1)
        add(modes=("level", "fall"), dw=3, attach=att, order=[1, 0])
        add(modes=("level",), dw=8, attach=att, wvals=(0, 1, 0xFE, 0xFF))
    add(modes=("rise", "fall"), dw=1, attach="dec", dec_offset=True, trigger="rise")
    add(modes=("level", "rise"), dw=1, attach="dec", align=2)          # two chunks padded to four, through a decoder
    add(modes=("fall", "level"), dw=1, attach="connect", align=1, driver="lean")
    add(modes=("level", "rise"), dw=1, attach="direct", elab_twice=True)
    add(modes=("fall",), dw=2, attach="connect", elab_twice=True)
    add(modes=("level", "level"), dw=1, attach="direct", align=2)
    # five events: one byte-wide chunk per register (token write data, walking source vectors); five CHUNKS per register
    # are beyond what this check explores (6e6 states were not enough) - the multiplexer side of that is C04/C05's
    add(modes=("level",) * 5, dw=8, attach="direct", src_vectors="walking", wvals=(0, 0x1F, 0x10, 0x01), driver="lean")
    # large event counts (existence and map shape only): word counts that are not powers of two, with alignment
    for n, dw, align in ((5, 1, 1), (5, 2, 0), (7, 1, 2), (9, 8, 0), (12, 8, 1), (17, 8, 1), (20, 8, 1), (24, 8, 2), (33, 8, 1), (40, 16, 1),
                         (65, 32, 1), (64, 8, 0), (70, 8, 3)):
        add(modes=("level", "rise", "fall") * (n // 3) + ("level",) * (n % 3), dw=dw, attach="direct", align=align, static=True)
    if not quick:
        # three events: unaligned 3-chunk registers on a 1-bit bus (pending at 3..6), 2-bit bus
        for modes in (("level", "rise", "fall"), ("rise", "rise", "level"), ("fall", "level", "level"), ("rise", "level", "rise"),
                      ("level", "fall", "level")):
            add(modes=modes, dw=1, attach="direct")
            add(modes=modes, dw=2, attach="dec")
        add(modes=("level",) * 3, dw=1, attach="connect", src_vectors="walking")
        add(modes=("rise",), dw=3, attach="direct", align=2, wvals=(0, 7, 5))
        add(modes=("fall",), dw=2, attach="direct", align=2)
        add(modes=("level",), dw=3, attach="direct", align=1)
        add(modes=("level",) * 9, dw=8, attach="direct", src_vectors="walking", wvals=(0, 0xFF, 0xA5))
    else:
        # three events on a 1-bit bus: 3-chunk registers, pending sits unaligned at 3..6 (lean driver)
        add(modes=("level", "level", "level"), dw=1, attach="direct", src_vectors=(0, 1, 4), driver="lean")
        # (modes alternate: two sources of one mode separated by a source of another)
        add(modes=("rise", "level", "rise"), dw=2, attach="connect", src_vectors=(0, 2, 5), wvals=(0, 3, 1), driver="lean")
    return out


def static_check(cfg):
    """Large event counts: the monitor must exist (construct and elaborate) for any number of events, bus width
    and alignment, and its map must hold two mask registers of the right size that do not overlap; no exploration."""
    from ..common import is_refusal, describe_exc
    from ..netlist import compile_harness

    def viol(msg, what):
        return dict(states=0, transitions=0, violation=dict(kind="static", err=dict(msg=msg, signature=dict(kind="oracle", what=what)),
                                                            trace=[], signature=dict(kind="oracle", what=what)))
    try:
        h = build(cfg)
        compile_harness(h, only=["irq"])
    except Exception as e:
        d = describe_exc(e)
        return viol(f"an event monitor for {len(cfg['modes'])} events, data width {cfg['dw']}, alignment {cfg.get('align', 0)} cannot be "
                    f"built: {d['type']}: {d['message'][:160]}", "refused_in_domain" if is_refusal(e) else "internal_error")
    n, dw = len(cfg["modes"]), cfg["dw"]
    regs = h.meta["regs"]
    need = max(1, -(-n // dw))
    if set(regs) != {"enable", "pending"} or any(r["width"] != n or r["end"] - r["start"] < need for r in regs.values()):
        return viol(f"memory map reports {regs} for {n} events on a {dw}-bit bus", "map")
    a, b = sorted((r["start"], r["end"]) for r in regs.values())
    if a[1] > b[0] or b[1] > (1 << h.meta["aw"]):
        return viol(f"mask registers overlap or leave the address space: {regs}", "map")
    return dict(states=1, transitions=0, max_depth=0, capped=None, outcomes=1)


def run_config(cfg, tier, seed):
    if cfg.get("static"):
        return static_check(cfg)
    return explore_hw(build, Observer, cfg, tier, seed, max_states=6_000_000, max_seconds=6000)


def replay(data):
    if data["cfg"].get("static"):
        v = static_check(data["cfg"]).get("violation")
        return (v["err"], 0) if v else (None, None)
    return rederive(build, Observer, data["cfg"], data["trace"], None)


def main(tier, seed):
    t0 = time.time()
    results = run_configs(run_config, configs(tier), tier, seed)
    cov = aggregate(results)
    cov["rule"] = ("event counts 0-2 (thorough: 3, 9) x bus width 1-3, 8 x alignment 0-2 x trigger modes x attachment "
                   "(decoder / connect() / direct); CSR-conforming driver (idle, unmapped, start/continue/abandon read, write, "
                   "read+write) x every source vector per cycle")
    return finish(PID, tier, seed, "model_checking", cov, ASSUMPTIONS, t0, results, min_explored=int(0.9 * len(results)))


ASSUMPTIONS = [
    "Amaranth 0.5.10 front end, build_netlist and Simulator are the trusted base", "rst held at 0",
    "the CSR initiator follows the protocol (transactions start at the first chunk, consecutive chunks, may be abandoned)",
    "8-bit buses and the 9-event configuration use write-data tokens / walking source vectors (flagged in the configuration)",
]
