"""C10 - Wishbone-to-CSR bridge performs each transfer exactly once, in order, on time.

Harness A: the real bridge over a stub CSR target.  The driver is a protocol-abiding Wishbone
classic initiator automaton (its state is part of the BFS node): when idle it may stay idle, raise
cyc without stb, raise stb without cyc, or present a transfer (every address, we, EVERY select mask,
data token); a transfer is held until the acknowledge has been seen; the next transfer may follow
immediately (back-to-back) or later.  The stub CSR target returns a data token in the cycle after
each read strobe and zero otherwise (CSR bus rule).
Harness B: bridge + real csr.Bridge (multiplexer + RW registers spanning several granules): a wide
write has reached the register storage by the acknowledge cycle; wide reads are snapshots.
Oracle: transfer-level reference (latency, strobes, addresses, lanes).
"""
import itertools
import time

from amaranth import Module

from ..netlist import Harness
from ..hw import explore_hw, aggregate, rederive
from ..common import run_configs, finish

PID = "C10"


def log2(x):
    return x.bit_length() - 1


def lane_tok(lane, w, flavour):
    base = [0xA1, 0xB2, 0xC4, 0xD8, 0x17, 0x2E, 0x4D, 0x8B][lane % 8]
    if flavour:
        base ^= 0xFF
    v = 0
    for b in range(w // 8):
        v |= ((base + 17 * b) & 0xFF) << (8 * b)
    return v


def build(cfg):
    from amaranth_soc import csr
    from amaranth_soc.csr.wishbone import WishboneCSRBridge
    from amaranth_soc.memory import MemoryMap
    cw, ratio, caw = cfg["cw"], cfg["ratio"], cfg["caw"]
    if cfg.get("regs"):
        return build_b(cfg)
    m = Module()
    cbus = csr.Interface(addr_width=caw, data_width=cw, path=("csr",))
    cbus.memory_map = MemoryMap(addr_width=caw, data_width=cw)
    br = WishboneCSRBridge(cbus, data_width=cw * ratio)
    m.submodules.br = br
    wb = br.wb_bus
    inputs = [("adr", wb.adr), ("cyc", wb.cyc), ("stb", wb.stb), ("we", wb.we), ("sel", wb.sel),
              ("dat_w", wb.dat_w), ("c_r_data", cbus.r_data)]
    probes = [("ack", wb.ack), ("dat_r", wb.dat_r), ("c_addr", cbus.addr), ("c_r_stb", cbus.r_stb),
              ("c_w_stb", cbus.w_stb), ("c_w_data", cbus.w_data)]
    meta = dict(wb_aw=wb.addr_width, wb_dw=wb.data_width, wb_gran=wb.granularity, nsel=len(wb.sel))
    return Harness(m, inputs, probes, meta)


class Observer:
    """obs = (t, xfer, lanes, idx, pending)   t = -1: idle
       xfer = (adr, we, sel, flavour); lanes = tuple(captured CSR read data or -1)
       idx = number of selected granules already accessed; pending = lane whose read data arrives in this
       cycle (its read strobe was issued in the previous cycle) or -1.
    The property fixes the acknowledge time, the number, order, address, direction and data of the CSR
    accesses - not the cycle of each access - so accesses are consumed in order, anywhere in cycles
    0..ratio of the transfer."""
    def __init__(self, cfg, h, comp):
        self.cfg = cfg
        self.cw, self.ratio = cfg["cw"], cfg["ratio"]
        self.ii, self.pi = comp.in_index, comp.probe_index
        self.order = comp.in_names
        self.init = (-1, None, None, 0, -1)
        aw = h.meta["wb_aw"]
        if h.meta["wb_dw"] != self.cw * self.ratio or h.meta["wb_gran"] != self.cw or h.meta["nsel"] != self.ratio \
                or aw != max(0, cfg["caw"] - log2(self.ratio)):
            self.meta_err = f"bridge geometry {h.meta} for CSR width {self.cw} x ratio {self.ratio}"
        else:
            self.meta_err = None
        sels = list(range(1 << self.ratio))
        full = (1 << self.ratio) - 1
        if cfg.get("sel_thin"):
            sels = sorted({0, full} | {1 << i for i in range(self.ratio)} | {full ^ (1 << i) for i in range(self.ratio)})
        flav = (0, 1) if cfg.get("dat_tokens", 2) == 2 else (0,)
        self.rtoks = [lane_tok(3, self.cw, 0), lane_tok(5, self.cw, 1)][:cfg.get("r_tokens", 2)]
        self.xfers = [(adr, we, sel, fl) for adr in range(1 << aw) for we in (0, 1) for sel in sels for fl in flav]
        self.lmask = (1 << self.cw) - 1
        top = (1 << aw) - 1
        # not-a-transfer letters: the initiator may leave anything on adr/sel/we/dat_w while cyc or stb is low
        self._idle_letters = ([self.mk(0, 0, 0, 0, 0, 0, 0), self.mk(0, 1, 0, 0, 0, 0, 0), self.mk(0, 0, 1, 0, 0, 0, 0),
                               self.mk(top, 0, 0, 1, full, self.dat(0), 0), self.mk(top, 1, 0, 1, full, self.dat(1 if len(flav) > 1 else 0), 0),
                               self.mk(top, 0, 1, 0, full, 0, 0), self.mk(0, 1, 0, 0, 1, self.dat(0), 0)]
                              + [self.xl(x, 0) for x in self.xfers])

    def dat(self, fl):
        v = 0
        for lane in range(self.ratio):
            v |= lane_tok(lane, self.cw, fl) << (lane * self.cw)
        return v

    def mk(self, adr, cyc, stb, we, sel, dat_w, rd):
        d = dict(adr=adr, cyc=cyc, stb=stb, we=we, sel=sel, dat_w=dat_w, c_r_data=rd)
        return tuple(d[n] for n in self.order)

    def xl(self, x, rd):
        adr, we, sel, fl = x
        return self.mk(adr, 1, 1, we, sel, self.dat(fl), rd)

    def letters(self, obs):
        t, xfer, lanes, idx, pending = obs
        rds = self.rtoks if pending >= 0 else (0,)
        if t < 0:
            return self._idle_letters
        return [self.xl(xfer, rd) for rd in rds]

    def observe(self, obs, letter, outs):
        if self.meta_err:
            return dict(msg=self.meta_err, signature=dict(kind="metadata")), obs
        ii, pi = self.ii, self.pi
        t, xfer, lanes, idx, pending = obs
        ratio = self.ratio
        cyc, stb = letter[ii["cyc"]], letter[ii["stb"]]
        rd_in = letter[ii["c_r_data"]]
        if t < 0 and cyc and stb:
            t = 0
            fl = 0 if letter[ii["dat_w"]] == self.dat(0) else 1
            xfer = (letter[ii["adr"]], letter[ii["we"]], letter[ii["sel"]], fl)
            lanes = (-1,) * ratio
            idx, pending = 0, -1
        ack, rs, ws = outs[pi["ack"]], outs[pi["c_r_stb"]], outs[pi["c_w_stb"]]
        if t < 0:
            if ack or rs or ws:
                return dict(msg=f"outside any transfer: ack={ack} csr r_stb={rs} w_stb={ws}",
                            signature=dict(kind="oracle", what="spurious")), obs
            return None, self.init
        adr, we, sel, fl = xfer
        if pending >= 0:       # the stub's answer to the read strobe of the previous cycle arrives now
            lanes = lanes[:pending] + (rd_in,) + lanes[pending + 1:]
        sel_list = [i for i in range(ratio) if (sel >> i) & 1]
        npending = -1
        if rs or ws:
            if rs and ws:
                return dict(msg=f"cycle {t}: CSR read and write strobe together", signature=dict(kind="oracle", what="strobe")), obs
            if idx >= len(sel_list):
                return dict(msg=f"cycle {t} of a transfer (we={we}, sel={sel:#b}): a CSR access beyond the {len(sel_list)} selected granule(s)",
                            signature=dict(kind="oracle", what="strobe")), obs
            if t > ratio:
                return dict(msg=f"cycle {t}: CSR access in or after the acknowledge cycle of a ratio-{ratio} transfer",
                            signature=dict(kind="oracle", what="strobe")), obs
            g = sel_list[idx]
            if bool(ws) != bool(we):
                return dict(msg=f"cycle {t}: CSR {'write' if ws else 'read'} strobe during a {'write' if we else 'read'} transfer",
                            signature=dict(kind="oracle", what="strobe")), obs
            ea = adr * ratio + g
            if outs[pi["c_addr"]] != ea:
                return dict(msg=f"access {idx} of the transfer: CSR address {outs[pi['c_addr']]}, expected {ea} (= {adr} x {ratio} + {g}; selected granules in ascending order)",
                            signature=dict(kind="oracle", what="csr_addr")), obs
            if ws:
                ed = (self.dat(fl) >> (g * self.cw)) & self.lmask
                if outs[pi["c_w_data"]] != ed:
                    return dict(msg=f"granule {g}: CSR w_data {outs[pi['c_w_data']]:#x}, expected lane {g} = {ed:#x}",
                                signature=dict(kind="oracle", what="w_data")), obs
            else:
                npending = g
            idx += 1
        exp_ack = 1 if t == ratio + 1 else 0
        if ack != exp_ack:
            return dict(msg=f"cycle {t} of a transfer (ratio {ratio}): ack={ack}, expected {exp_ack}",
                        signature=dict(kind="oracle", what="ack")), obs
        if exp_ack:
            if idx != len(sel_list):
                return dict(msg=f"acknowledged after {idx} CSR access(es); {len(sel_list)} granule(s) are selected (sel={sel:#b})",
                            signature=dict(kind="oracle", what="strobe")), obs
            if not we:
                dr = outs[pi["dat_r"]]
                for lane in sel_list:
                    got = (dr >> (lane * self.cw)) & self.lmask
                    if got != lanes[lane]:
                        return dict(msg=f"acknowledged read: lane {lane} = {got:#x}, expected granule {lane}'s CSR read data {lanes[lane]:#x}",
                                    signature=dict(kind="oracle", what="dat_r")), obs
            return None, self.init
        return None, (t + 1, xfer, lanes, idx, npending)


# ---- harness B: through a real register file ---------------------------------------------------------

def build_b(cfg):
    from amaranth_soc import csr
    from amaranth_soc.csr import action
    from amaranth_soc.csr.wishbone import WishboneCSRBridge
    cw, ratio, caw = cfg["cw"], cfg["ratio"], cfg["caw"]

    class Reg(csr.Register, access="rw"):
        def __init__(self, w):
            super().__init__({"f": csr.Field(action.RW, w)})

    class RoReg(csr.Register, access="r"):
        def __init__(self, w):
            super().__init__({"f": csr.Field(action.R, w)})

    b = csr.Builder(addr_width=caw, data_width=cw)
    regs = []
    for k, spec in enumerate(cfg["regs"]):
        w, off = spec[0], spec[1]
        ro = len(spec) > 2 and spec[2] == "r"
        regs.append(b.add(f"r{k}", RoReg(w) if ro else Reg(w), offset=off))
    brg = csr.Bridge(b.as_memory_map())
    br = WishboneCSRBridge(brg.bus, data_width=cw * ratio)
    m = Module()
    m.submodules.brg = brg
    m.submodules.br = br
    wb = br.wb_bus
    inputs = [("adr", wb.adr), ("cyc", wb.cyc), ("stb", wb.stb), ("we", wb.we), ("sel", wb.sel), ("dat_w", wb.dat_w)]
    probes = [("ack", wb.ack), ("dat_r", wb.dat_r), ("csr_r_stb", brg.bus.r_stb), ("csr_addr", brg.bus.addr)]
    meta = dict(wb_aw=wb.addr_width, regs=[])
    for k, r in enumerate(regs):
        info = brg.bus.memory_map.find_resource(r)
        ro = len(cfg["regs"][k]) > 2 and cfg["regs"][k][2] == "r"
        meta["regs"].append(dict(start=info.start, end=info.end, width=cfg["regs"][k][0], ro=ro))
        if ro:
            inputs.append((f"rin{k}", r.f.f.r_data))       # a value that changes every cycle
        else:
            probes.append((f"data{k}", r.element.r_data))   # what the register presents to the bus
    return Harness(m, inputs, probes, meta)


class ObserverB:
    """Whole-register accesses only (every transfer selects all lanes): a wide register is written
    and read back atomically through the bridge.  obs = (t, xfer, model values)"""
    def __init__(self, cfg, h, comp):
        self.cw, self.ratio = cfg["cw"], cfg["ratio"]
        self.ii, self.pi = comp.in_index, comp.probe_index
        self.order = comp.in_names
        self.regs = h.meta["regs"]
        aw = h.meta["wb_aw"]
        full = (1 << self.ratio) - 1
        self.toks = [0x0123456789ABCDEF & ((1 << (self.cw * self.ratio)) - 1),
                     0xFEDCBA9876543210 & ((1 << (self.cw * self.ratio)) - 1)]
        self.init = (-1, None, tuple(0 for _ in self.regs))
        self.ro = [k for k, r in enumerate(self.regs) if r["ro"]]
        # read-only registers present a value that changes EVERY cycle (two complementary tokens per register)
        rin_sets = [()]
        for k in self.ro:
            w = self.regs[k]["width"]
            ta = 0x5A3C96E1F00F & ((1 << w) - 1)
            rin_sets = [rs + ((k, v),) for rs in rin_sets for v in (ta, ta ^ ((1 << w) - 1))]
        self.rin_sets = rin_sets
        base = [(0, 0, 0, 0, 0, 0)] + [(adr, 1, 1, we, full, tk) for adr in range(1 << aw)
                                       for we in (0, 1) for tk in (self.toks if we else self.toks[:1])]
        self._idle = [self.mk(*b_, rins) for b_ in base for rins in rin_sets]

    def mk(self, adr, cyc, stb, we, sel, dat_w, rins=()):
        d = dict(adr=adr, cyc=cyc, stb=stb, we=we, sel=sel, dat_w=dat_w)
        for k, v in rins:
            d[f"rin{k}"] = v
        return tuple(d.get(n, 0) for n in self.order)

    def letters(self, obs):
        t, xfer, vals = obs
        if t < 0:
            return self._idle
        return [self.mk(xfer[0], 1, 1, xfer[1], (1 << self.ratio) - 1, xfer[2], rins) for rins in self.rin_sets]

    def word(self, adr, vals):
        """what a full-word read at Wishbone address adr returns according to the register model"""
        v = 0
        for lane in range(self.ratio):
            ca = adr * self.ratio + lane
            for r, val in zip(self.regs, vals):
                if r["start"] <= ca < r["end"]:
                    v |= ((val >> ((ca - r["start"]) * self.cw)) & ((1 << self.cw) - 1)) << (lane * self.cw)
        return v

    def observe(self, obs, letter, outs):
        ii, pi = self.ii, self.pi
        t, xfer, vals = obs
        # a read-only register is captured when the CSR bus reads its first chunk: remember what it presented then
        if outs[pi["csr_r_stb"]]:
            for k in self.ro:
                if outs[pi["csr_addr"]] == self.regs[k]["start"]:
                    vals = vals[:k] + (letter[ii[f"rin{k}"]],) + vals[k + 1:]
        for k in range(len(self.regs)):
            if k in self.ro:
                continue
            if t < 0 and outs[pi[f"data{k}"]] != vals[k]:
                return dict(msg=f"register {k} holds {outs[pi[f'data{k}']]:#x}, expected {vals[k]:#x} after the acknowledged transfers",
                            signature=dict(kind="oracle", what="storage")), obs
        if t < 0 and letter[ii["cyc"]] and letter[ii["stb"]]:
            t = 0
            xfer = (letter[ii["adr"]], letter[ii["we"]], letter[ii["dat_w"]])
        if t < 0:
            if outs[pi["ack"]]:
                return dict(msg="ack outside a transfer", signature=dict(kind="oracle", what="spurious")), obs
            return None, obs
        exp_ack = 1 if t == self.ratio + 1 else 0
        if outs[pi["ack"]] != exp_ack:
            return dict(msg=f"cycle {t}: ack={outs[pi['ack']]} expected {exp_ack}", signature=dict(kind="oracle", what="ack")), obs
        if not exp_ack:
            return None, (t + 1, xfer, vals)
        adr, we, dat = xfer
        if we:
            # registers whose LAST chunk lies in this word are updated with the chunks of this word
            nv = list(vals)
            for k, r in enumerate(self.regs):
                lo, hi = adr * self.ratio, (adr + 1) * self.ratio
                if k in self.ro:
                    continue
                if lo <= r["start"] and r["end"] <= hi:
                    v = 0
                    for ca in range(r["start"], r["end"]):
                        v |= ((dat >> ((ca - lo) * self.cw)) & ((1 << self.cw) - 1)) << ((ca - r["start"]) * self.cw)
                    nv[k] = v & ((1 << r["width"]) - 1)
                    got = outs[pi[f"data{k}"]]
                    if got != nv[k]:
                        return dict(msg=f"write acknowledged but register {k} holds {got:#x}, expected {nv[k]:#x}",
                                    signature=dict(kind="oracle", what="write_by_ack")), obs
            return None, (-1, None, tuple(nv))
        exp = self.word(adr, vals)
        if outs[pi["dat_r"]] != exp:
            return dict(msg=f"read of word {adr} returned {outs[pi['dat_r']]:#x}, expected {exp:#x}",
                        signature=dict(kind="oracle", what="read_back")), obs
        return None, (-1, None, vals)


def configs(tier):
    quick = tier == "quick"
    out = []
    for cw in (8, 16, 32, 64):
        for ratio in (1, 2, 4, 8):
            if cw * ratio > 64:
                continue
            lr = log2(ratio)
            for extra in (0, 1, 2) if quick else (0, 1, 2, 3):
                caw = max(1, lr + extra)
                if ratio == 1 and extra == 0:
                    continue
                if ratio == 8:
                    if extra > 1 and quick:
                        continue
                    out.append(dict(cw=cw, ratio=ratio, caw=caw, dat_tokens=1, r_tokens=1))                 # all 256 masks
                    out.append(dict(cw=cw, ratio=ratio, caw=caw, sel_thin=True, dat_tokens=2, r_tokens=2))
                elif ratio == 4:
                    out.append(dict(cw=cw, ratio=ratio, caw=caw, dat_tokens=1, r_tokens=2))
                    if not quick:
                        out.append(dict(cw=cw, ratio=ratio, caw=caw, sel_thin=True, dat_tokens=2, r_tokens=2))
                else:
                    out.append(dict(cw=cw, ratio=ratio, caw=caw))
    out.append(dict(cw=8, ratio=2, caw=2, elab_twice=True))
    out.append(dict(cw=16, ratio=4, caw=3, dat_tokens=1, r_tokens=2, elab_twice=True))
    # harness B: registers spanning several granules, aligned inside one Wishbone word
    out.append(dict(cw=8, ratio=2, caw=3, regs=[(16, 0), (12, 2), (8, 4)]))
    # a wide READ-ONLY register whose value changes every cycle: the acknowledged word must be a snapshot
    out.append(dict(cw=8, ratio=4, caw=3, regs=[(32, 0, "r"), (16, 4)]))
    out.append(dict(cw=8, ratio=2, caw=3, regs=[(16, 0), (16, 2, "r"), (8, 4)]))
    out.append(dict(cw=8, ratio=4, caw=3, regs=[(32, 0), (20, 4)]))
    out.append(dict(cw=16, ratio=2, caw=2, regs=[(32, 0), (17, 4)]))
    if not quick:
        out.append(dict(cw=8, ratio=8, caw=4, regs=[(64, 0), (40, 8)]))
        out.append(dict(cw=16, ratio=4, caw=3, regs=[(64, 0), (33, 8)]))
    return out


def run_config(cfg, tier, seed):
    if cfg.get("regs"):
        return explore_hw(build, ObserverB, cfg, tier, seed, max_states=400000)
    return explore_hw(build, Observer, cfg, tier, seed, max_states=3_000_000, max_seconds=3000)


def replay(data):
    cfg = data["cfg"]
    return rederive(build, ObserverB if cfg.get("regs") else Observer, cfg, data["trace"], None)


def main(tier, seed):
    t0 = time.time()
    results = run_configs(run_config, configs(tier), tier, seed)
    cov = aggregate(results)
    cov["rule"] = ("CSR width 8/16/32/64 x ratio 1/2/4/8 (<=64 bit) x CSR address width log2(ratio)..+2 (thorough +3); driver = "
                   "Wishbone classic initiator automaton (idle, cyc only, stb only, every transfer; held to ack; back-to-back); "
                   "harness B through real registers")
    return finish(PID, tier, seed, "model_checking", cov, ASSUMPTIONS, t0, results, min_explored=int(0.9 * len(results)))


ASSUMPTIONS = [
    "Amaranth 0.5.10 front end, build_netlist and Simulator are the trusted base", "rst held at 0",
    "the initiator holds a transfer until it has seen the acknowledge (Wishbone classic)",
    "the stub CSR target returns a token the cycle after a read strobe and zero otherwise (CSR rule)",
    "write data / read data tokens are lane-tagged patterns (2 flavours); ratio 8 uses thinned select masks for the data half",
]
