"""C02 - memory-map allocation never overlaps, overflows, misaligns or half-applies.

Engine H: BFS over ALL call histories (to a stated depth) of add_resource / add_window / align_to /
freeze / freezing uses, with valid and invalid arguments, on real MemoryMap objects of 2-4 address
bits.  Oracle: RefAlloc (three-valued: must-accept / must-reject / either) + invariants on every
state + failure atomicity (a raising call leaves the canonical observation, which includes the
placement cursor, equal to the parent state's).
"""
import time

from ..history import hbfs
from ..common import finish, JOBS

PID = "C02"
DW = 16


def au(v, a):
    return ((v + (1 << a) - 1) >> a) << a


def letters_for_cfg(cfg):
    AW = cfg["aw"]
    thin = cfg.get("thin", False)
    if cfg.get("big"):
        # very wide address spaces: the same arithmetic with operands beyond 2**53 (where floating point,
        # 32/64-bit truncation or shifts by the wrong amount would show)
        P = [None, (1 << 53) + 1, (1 << 53) + 3, (1 << 62) + 5, (1 << AW) - 2, (1 << AW) - 1, 1 << AW]
        L = [("res", size, addr, ra) for size in (1, 3, (1 << 53) + 1) for addr in P for ra in (None, 1, 54)]
        L += [("win", waw, "same", addr, 0) for waw in (1, 54) for addr in (None, (1 << 54) * 3, (1 << 53) + 2)]
        L += [("align", k) for k in (0, 1, 53, 54)] + [("freeze",), ("use_window",)]
        L += [("bad", "size_neg"), ("bad", "name_conflict"), ("bad", "big_win"), ("bad", "win_name_conflict")]
        return L
    L = []
    sizes = (0, 1, 2, 3, 5) if not thin else (1, 3)
    addrs = [None] + list(range(1 << AW)) + [1 << AW]
    if thin:
        addrs = [None] + [a for a in range(1 << AW) if a % 3 != 2]
    for size in sizes:
        for addr in addrs:
            for ra in ((None, 0, 1, 2) if not thin else (None, 1)):
                L.append(("res", size, addr, ra))
    waddrs = [None] + list(range(0, 1 << AW)) if not thin else [None, 0, 2, 4]
    for waw in (1, 2):
        for kind, wal in (("same", 0), ("sparse", 0), ("dense2", 1), ("dense2", 2), ("dense4", 2)):
            if (1 << waw) < {"same": 1, "sparse": 1, "dense2": 2, "dense4": 4}[kind] * 1:
                continue
            if kind == "dense4" and waw < 2:
                continue
            if thin and (kind, wal) == ("dense2", 2):
                continue
            for addr in waddrs:
                L.append(("win", waw, kind, addr, wal))
    # dense windows of ratio 8 and 16 (one and two parent addresses)
    for waw, kind, wal in ((3, "dense8", 3), (4, "dense8", 3)) + (() if thin else ((4, "dense16", 4),)):
        for addr in (None, 0, 1, 2):
            L.append(("win", waw, kind, addr, wal))
    for k in (0, 1, 2, 3):
        L.append(("align", k))
    L.append(("freeze",))
    L += [("use_window",), ("use_decoder",), ("use_wbbridge",), ("use_bridge",)]
    L += [("bad", what) for what in ("size_neg", "size_str", "addr_neg", "addr_str", "align_neg", "not_component",
                                     "same_res", "name_conflict", "not_map", "same_win", "wide_win", "big_win",
                                     "dense_inadmissible", "no_mode", "align_bad", "win_name_conflict", "win_bad_name",
                                     "anon_inner_conflict")]
    return L


_POOL = []
_NEXT = [0]


def make_res():
    """Resources are real csr.Register objects (so that csr.Bridge accepts the map).  They are never
    elaborated, each history uses a fresh MemoryMap, so a per-process pool of objects is reused
    (execute() resets the cursor; within one history every call gets a distinct object)."""
    if not _POOL:
        from amaranth_soc import csr
        from amaranth_soc.csr import action

        class R(csr.Register, access="rw"):
            def __init__(self):
                super().__init__({"f": csr.Field(action.RW, 1)})
        _POOL.extend(R() for _ in range(96))
    r = _POOL[_NEXT[0] % len(_POOL)]
    _NEXT[0] += 1
    return r


class RefAlloc:
    def __init__(self, aw, al):
        self.aw, self.al = aw, al
        self.items = []        # (start, stop, ratio, kind)
        self.cur = 0
        self.frozen = False

    def free(self, a, b):
        return all(b <= x or y <= a for x, y, _, _ in self.items)

    def place(self, addr, size, eff):
        if addr is None:
            st = au(self.cur, eff)
            if st + size > (1 << self.aw) or not self.free(st, st + size):
                return ("rej",)
            return ("ok", st, st + size)
        st, en = addr, addr + size
        if en > (1 << self.aw) or not self.free(st, en) or st % (1 << self.al):
            return ("rej",)
        if st % (1 << eff) == 0:
            return ("ok", st, en)
        return ("either", st, en)


def execute_factory(cfg):
    AW, AL = cfg["aw"], cfg["al"]

    def observe(mm, objs=None):
        rs, ws = [], []
        for o, name, (s, e) in mm.resources():
            rs.append((s, e, 1, "r"))
            if objs is not None:
                objs.append((s, id(o), tuple(name)))
        for o, name, (s, e, st) in mm.windows():
            ws.append((s, e, st, "w"))
            if objs is not None:
                objs.append((s, id(o), None if name is None else tuple(name)))
        return rs, ws

    def execute(history, parent_key):
        from amaranth_soc import csr
        from amaranth_soc.memory import MemoryMap
        from amaranth_soc.csr.wishbone import WishboneCSRBridge
        _NEXT[0] = 0
        mm = MemoryMap(addr_width=AW, data_width=DW, alignment=AL)
        ref = RefAlloc(AW, AL)
        first_res = first_win = first_name = None
        failed_name = failed_obj = None
        handed = {}              # start address -> (object identity, name) as handed to the add_* calls
        children = []
        err = None
        last_raised = False
        n = len(history)
        for pos, op in enumerate(history):
            last = pos == n - 1
            exp = None
            raised = None
            ret = None
            kind = op[0]
            try:
                if kind == "res":
                    _, size, addr, ra = op
                    res = make_res()
                    if ref.frozen:
                        exp = ("rej",)
                    else:
                        eff = max(ra if ra is not None else 0, AL)
                        exp = ref.place(addr, au(max(size, 1), eff), eff)
                    ret = mm.add_resource(res, name=(f"p{pos}",), size=size, addr=addr, alignment=ra)
                    handed[ret[0]] = (id(res), (f"p{pos}",))
                    if first_res is None:
                        first_res, first_name = res, (f"p{pos}",)
                elif kind == "win":
                    _, waw, wk, addr, wal = op
                    wdw = {"same": DW, "sparse": 8, "dense2": 8, "dense4": 4, "dense8": 2, "dense16": 1}[wk]
                    ratio = {"same": 1, "sparse": 1, "dense2": 2, "dense4": 4, "dense8": 8, "dense16": 16}[wk]
                    w = MemoryMap(addr_width=waw, data_width=wdw, alignment=wal)
                    sp = {"same": None, "sparse": True}.get(wk, False)
                    if ref.frozen:
                        exp = ("rej",)
                    elif ratio == 1:
                        eff = max(AL, waw)
                        exp = ref.place(addr, au(1 << waw, eff), eff)
                    else:
                        exp = ("dense", (1 << waw) // ratio, addr, ratio)
                    ret = mm.add_window(w, name=(f"p{pos}",), addr=addr, sparse=sp)
                    handed[ret[0]] = (id(w), (f"p{pos}",))
                    children.append(w)
                    if first_win is None:
                        first_win = w
                        first_name = first_name or (f"p{pos}",)
                elif kind == "align":
                    exp = ("ret", au(ref.cur, max(op[1], AL)), ref.frozen)
                    ret = mm.align_to(op[1])
                elif kind == "freeze":
                    exp = ("none",)
                    mm.freeze()
                elif kind == "use_window":
                    exp = ("none",)
                    parent = MemoryMap(addr_width=AW + 1, data_width=DW)
                    parent.add_window(mm, name="sub")
                elif kind == "use_decoder":
                    exp = ("none",)
                    bus = csr.Interface(addr_width=AW, data_width=DW)
                    bus.memory_map = mm
                    csr.Decoder(addr_width=AW + 1, data_width=DW).add(bus, name="sub")
                elif kind == "use_wbbridge":
                    exp = ("none",)
                    bus = csr.Interface(addr_width=AW, data_width=DW)
                    bus.memory_map = mm
                    WishboneCSRBridge(bus, data_width=DW)
                elif kind == "use_bridge":
                    exp = ("maybe_freeze",)
                    csr.Bridge(mm)
                else:
                    what = op[1]
                    exp = ("either_invalid",)
                    nm = (f"p{pos}",)
                    if what == "size_neg":
                        ret = mm.add_resource(make_res(), name=nm, size=-1)
                    elif what == "size_str":
                        ret = mm.add_resource(make_res(), name=nm, size="1")
                    elif what == "addr_neg":
                        ret = mm.add_resource(make_res(), name=nm, size=1, addr=-1)
                    elif what == "addr_str":
                        ret = mm.add_resource(make_res(), name=nm, size=1, addr="0")
                    elif what == "align_neg":
                        ret = mm.add_resource(make_res(), name=nm, size=1, alignment=-1)
                    elif what == "not_component":
                        ret = mm.add_resource(object(), name=nm, size=1)
                    elif what == "same_res":
                        ret = mm.add_resource(first_res if first_res is not None else object(), name=nm, size=1)
                    elif what == "name_conflict":
                        ret = mm.add_resource(make_res(), name=first_name if first_name is not None else (), size=1)
                    elif what == "not_map":
                        ret = mm.add_window(object(), name=nm)
                    elif what == "same_win":
                        ret = mm.add_window(first_win if first_win is not None else object(), name=nm)
                    elif what == "wide_win":
                        ret = mm.add_window(MemoryMap(addr_width=1, data_width=32), name=nm)
                    elif what == "big_win":
                        ret = mm.add_window(MemoryMap(addr_width=AW + 1, data_width=DW), name=nm)
                    elif what == "dense_inadmissible":
                        ret = mm.add_window(MemoryMap(addr_width=2, data_width=8, alignment=0), name=nm, sparse=False)
                    elif what == "no_mode":
                        ret = mm.add_window(MemoryMap(addr_width=1, data_width=8), name=nm)
                    elif what == "align_bad":
                        ret = mm.align_to(-1)
                    elif what == "win_name_conflict":      # placement is fine, the NAME is taken
                        ret = mm.add_window(MemoryMap(addr_width=1, data_width=DW), name=first_name if first_name is not None else ())
                    elif what == "win_bad_name":
                        ret = mm.add_window(MemoryMap(addr_width=1, data_width=DW), name=("",))
                    elif what == "anon_inner_conflict":    # anonymous window whose inner name is taken
                        w_ = MemoryMap(addr_width=1, data_width=DW)
                        w_.add_resource(make_res(), name=first_name if first_name is not None else ("q",), size=1)
                        ret = mm.add_window(w_)
                        if first_name is None:
                            first_name = ("q",)
            except (ValueError, TypeError) as e:
                raised = e
            except Exception as e:           # anything else escaping the API is an error of its own
                raised = e
                if last:
                    err = dict(msg=f"{op}: {type(e).__name__}: {e}", signature=dict(kind="oracle", what="internal_error"))
            # ---- compare with the reference ------------------------------------------------------
            def fail(msg, what):
                return dict(msg=f"{op}: {msg}", signature=dict(kind="oracle", what=what))

            tag = exp[0]
            applied = None
            if tag == "rej":
                if raised is None and last:
                    err = err or fail(f"accepted (returned {ret}) but must be refused", "accepted")
                if raised is None:
                    applied = ret
            elif tag in ("ok", "either"):
                if raised is not None:
                    if last and tag == "ok":
                        err = err or fail(f"refused ({type(raised).__name__}) but must be placed at {exp[1]}..{exp[2]}", "refused")
                else:
                    # the start is fixed (first suitably aligned address / the explicit address); the range must
                    # cover AT LEAST the requested size rounded to the effective alignment, stay in bounds and free
                    good = (ret[0] == exp[1] and ret[1] >= exp[2] and ret[1] <= (1 << AW) and ref.free(ret[0], ret[1])
                            and (len(ret) == 2 or ret[2] == 1))
                    if not good and last:
                        err = err or fail(f"placed at {ret}, expected start {exp[1]} and at least {exp[1]}..{exp[2]} (free, in bounds"
                                          f"{', ratio 1' if len(ret) == 3 else ''}){' or a refusal' if tag == 'either' else ''}", "placement")
                    applied = ret
            elif tag == "dense":
                if raised is None:
                    st, en, ratio = ret
                    ok = (en - st >= exp[1] and en <= (1 << AW) and st >= 0 and ref.free(st, en) and ratio == exp[3]
                          and (exp[2] is None or st == exp[2]) and not ref.frozen)
                    if not ok and last:
                        err = err or fail(f"dense window placed at {ret}: overlaps / out of bounds / too small / frozen", "dense")
                    applied = ret
            elif tag == "ret":
                if raised is not None and exp[2]:
                    pass        # moving the cursor of a FROZEN map: the property does not say it must work
                elif raised is not None or ret != exp[1]:
                    if last:
                        err = err or fail(f"returned {ret!r} / raised {raised!r}, expected {exp[1]}", "align_to")
                else:
                    ref.cur = exp[1]
            elif tag == "none":
                if raised is not None and last:
                    err = err or fail(f"raised {raised!r}", "freeze_use")
                ref.frozen = True
            elif tag == "maybe_freeze":
                if raised is None:
                    ref.frozen = True
            elif tag == "either_invalid":
                if raised is None and op[1] not in ("align_bad",) and ret is not None:
                    applied = ret
            if applied is not None:
                if len(applied) == 2:
                    ref.items.append((applied[0], applied[1], 1, "r"))
                else:
                    ref.items.append((applied[0], applied[1], applied[2], "w"))
                ref.cur = applied[1]
            last_raised = raised is not None
            # queries between the calls (their results are discarded): a cached / derived view that is
            # not refreshed by a later mutation would make the final observation stale
            try:
                list(mm.resources()); list(mm.windows()); list(mm.window_patterns()); list(mm.all_resources())
            except Exception as e:
                if last:
                    err = err or dict(msg=f"a query after {op} failed: {type(e).__name__}: {e}", signature=dict(kind="oracle", what="internal_error"))
            failed_name = failed_obj = None
            if raised is not None and kind in ("res", "win"):
                failed_name = (f"p{pos}",)
                failed_obj = res if kind == "res" else None
        # ---- canonical observation (public queries only; destructive probes are fine here) ----------
        reported = []
        rs, ws = observe(mm, reported)
        try:
            cursor = mm.align_to(0)
        except (ValueError, TypeError):
            cursor = None if ref.frozen else -1
        # States are merged on the observation, so a refused call that leaves HIDDEN traces (a reserved
        # name, a registered object) would go unnoticed by the search itself: look one step ahead.
        retried = False
        if err is None and last_raised and failed_name is not None:
            exp = ("rej",) if ref.frozen else ref.place(None, au(1, AL), AL)
            if exp[0] == "ok":
                try:
                    got = mm.add_resource(failed_obj if failed_obj is not None else make_res(), name=failed_name, size=1)
                    retried = True
                    if tuple(got) != (exp[1], exp[2]):
                        err = dict(msg=f"after the refused call {history[-1]}, a retry with its name/object was placed at {got}, expected {exp[1:]}",
                                   signature=dict(kind="oracle", what="refusal_left_traces"))
                except Exception as e:
                    err = dict(msg=f"after the refused call {history[-1]}, a legal retry with its name/object is refused: {type(e).__name__}: {str(e)[:100]}",
                               signature=dict(kind="oracle", what="refusal_left_traces"))
        open_ = retried       # a successful retry has just shown that the map still accepts a resource
        if AW <= 8:
            probe_addrs = range(0, 1 << AW, 1 << AL)
        else:
            top = 1 << AW
            cur_ = cursor if isinstance(cursor, int) and cursor >= 0 else ref.cur
            probe_addrs = sorted({0, 1 << AL, top - (1 << AL), top // 2, au(cur_, AL), au(cur_, AL) + (1 << AL)} - {top})
        for a in (() if retried else probe_addrs):
            try:
                mm.add_resource(make_res(), name=(f"probe{a}",), size=1, addr=a)
                open_ = True
                break
            except (ValueError, TypeError):
                pass
            except Exception as e:        # a legitimate API call must not fail with an internal error
                err = err or dict(msg=f"add_resource(size=1, addr={a}) after {history[-1:]}: {type(e).__name__}: {e}",
                                  signature=dict(kind="oracle", what="internal_error"))
        child_open = []
        for w in children:
            try:
                w.add_resource(make_res(), name=("probe",), size=1)
                child_open.append(True)
            except Exception:
                child_open.append(False)
        canon = (tuple(rs), tuple(ws), cursor, open_)
        if err is None:
            items = sorted(ref.items)
            rep = sorted(rs + ws)
            if [(a, b, c) for a, b, c, _ in rep] != [(a, b, c) for a, b, c, _ in items]:
                err = dict(msg=f"resources()/windows() report {rep}, handed out {items}", signature=dict(kind="oracle", what="report"))
            elif any(handed.get(s) not in (None, (oid, nm)) for s, oid, nm in reported):
                err = dict(msg="resources()/windows() pair a range with another object or name than the one it was handed out for",
                           signature=dict(kind="oracle", what="report_identity"))
            elif rs != sorted(rs) or ws != sorted(ws):
                err = dict(msg="resources()/windows() not in ascending address order", signature=dict(kind="oracle", what="order"))
            elif any(b > (1 << AW) or a < 0 or a >= b for a, b, _, _ in rep):
                err = dict(msg=f"range out of bounds: {rep}", signature=dict(kind="oracle", what="bounds"))
            elif any(rep[i][1] > rep[i + 1][0] for i in range(len(rep) - 1)):
                err = dict(msg=f"overlapping ranges: {rep}", signature=dict(kind="oracle", what="overlap"))
            elif any(a % (1 << AL) or b % (1 << AL) for a, b, c, k in rep if k == "r" or c == 1):
                err = dict(msg=f"range not aligned to the map alignment {AL}: {rep}", signature=dict(kind="oracle", what="misaligned"))
            elif cursor is not None and cursor != au(ref.cur, AL):
                err = dict(msg=f"placement cursor is {cursor}, expected {au(ref.cur, AL)}", signature=dict(kind="oracle", what="cursor"))
            elif ref.frozen and open_:
                err = dict(msg="map was frozen (explicitly or by use) but still accepts a resource", signature=dict(kind="oracle", what="not_frozen"))
            elif any(child_open):
                err = dict(msg="a map used as a window still accepts a resource", signature=dict(kind="oracle", what="window_not_frozen"))
            elif last_raised and parent_key is not None and canon != parent_key:
                err = dict(msg=f"call raised but the observation changed: {parent_key} -> {canon}", signature=dict(kind="oracle", what="atomicity"))
        return canon, err

    return execute


def configs(tier):
    if tier == "quick":
        return [dict(aw=2, al=0, depth=5), dict(aw=2, al=1, depth=6), dict(aw=3, al=0, depth=3), dict(aw=3, al=1, depth=3),
                dict(aw=3, al=2, depth=4), dict(aw=3, al=0, depth=3, thin=True), dict(aw=4, al=1, depth=3, thin=True),
                dict(aw=4, al=0, depth=2, thin=True), dict(aw=64, al=0, depth=3, big=True), dict(aw=60, al=1, depth=2, big=True)]
    return [dict(aw=2, al=0, depth=8), dict(aw=2, al=1, depth=8), dict(aw=3, al=0, depth=4), dict(aw=3, al=1, depth=4),
            dict(aw=3, al=2, depth=5), dict(aw=3, al=0, depth=5, thin=True), dict(aw=4, al=0, depth=3, thin=True),
            dict(aw=4, al=1, depth=4, thin=True), dict(aw=4, al=2, depth=4, thin=True), dict(aw=3, al=1, depth=5, thin=True),
            dict(aw=4, al=0, depth=2), dict(aw=64, al=0, depth=4, big=True), dict(aw=60, al=1, depth=3, big=True),
            dict(aw=57, al=3, depth=3, big=True)]


def replay(data):
    ex = execute_factory(data["cfg"])
    hist = tuple(tuple(x) if isinstance(x, list) else x for x in data["history"])
    parent, _ = ex(hist[:-1], None)
    _, err = ex(hist, parent)
    return err, len(hist)


def main(tier, seed):
    t0 = time.time()
    results = []
    cov = dict(states=0, transitions=0, traces_validated_against_impl=0, samples=[], configs=0, configs_capped=0,
               max_depth=0, per_config=[], outcomes={})
    for cfg in configs(tier):
        L = letters_for_cfg(cfg)
        hr = hbfs(L, execute_factory(cfg), max_depth=cfg["depth"], jobs=JOBS, chunk=8)
        res = dict(cfg=cfg)
        if hr.violation:
            v = hr.violation
            res["violation"] = dict(kind="history", err=v["err"], history=v["history"], signature=v["err"].get("signature", {}))
        results.append(res)
        cov["states"] += hr.states
        cov["transitions"] += hr.transitions
        cov["traces_validated_against_impl"] += hr.transitions
        cov["configs"] += 1
        cov["max_depth"] = max(cov["max_depth"], hr.max_depth)
        closed = hr.capped is None
        cov["configs_capped"] += 0 if closed else 1
        for k, v in hr.outcomes.items():
            cov["outcomes"][k] = cov["outcomes"].get(k, 0) + v
        cov["per_config"].append(dict(cfg=cfg, letters=len(L), states=hr.states, transitions=hr.transitions,
                                      depth=hr.max_depth, closed=closed, levels=hr.level_sizes))
        if hr.samples:
            cov["samples"].append(dict(cfg=cfg, history=hr.samples[-1]))
    cov["exhaustive"] = False
    cov["rule"] = ("all call histories to the stated depth per configuration (address width 2-4, map alignment 0-2); states "
                   "merged on the public observation (ranges, cursor, open/closed); every transition is a real call on real objects")
    return finish(PID, tier, seed, "model_checking", cov, ASSUMPTIONS, t0, results)


ASSUMPTIONS = [
    "depth-bounded: every history up to the stated depth, not unbounded histories (the state space does not close at 3-4 bits)",
    "dense windows of ratio > 1: disjointness, bounds, size, reporting and atomicity only (as the property says)",
    "explicit addresses that are multiples of the map alignment but not of the effective alignment: either outcome accepted",
    "error message texts are never inspected",
]
