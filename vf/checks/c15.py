"""C15 - Wishbone SRAM behaves as a memory with a one-cycle, single acknowledge.

Full BFS over (memory rows, ack, read latch) of the real netlist under a free driver: every
(adr, cyc, stb, we, sel, dat_w-token) letter in every cycle.  Oracle: RefSRAM.
"""
import itertools
import time

from amaranth import Module

from ..netlist import Harness
from ..hw import explore_hw, aggregate, rederive
from ..common import run_configs, finish

PID = "C15"


def lane_token(k, lanes, gran, flavour):
    """Distinct per-lane tags so that a swapped / duplicated lane shows."""
    base = [0xA1, 0xB2, 0xC4, 0xD8, 0x17, 0x2E, 0x4D, 0x8B]
    v = 0
    for lane in range(lanes):
        b = base[(lane + 3 * k) % 8]
        if flavour:
            b ^= 0xFF
        lane_val = 0
        for byte in range(gran // 8):
            lane_val |= ((b + byte) & 0xFF) << (8 * byte)
        v |= lane_val << (lane * gran)
    return v


def build(cfg):
    from amaranth_soc.wishbone.sram import WishboneSRAM
    dw, gran, rows = cfg["dw"], cfg["gran"], cfg["rows"]
    lanes = dw // gran
    size = rows * lanes
    init = ()
    if cfg["init"] == "A":
        init = [lane_token(10 + r, lanes, gran, 0) for r in range(rows)]
        if rows > 8:       # (the lane tags repeat every 8 rows: make every row distinct)
            init = [(v ^ (r * 0x9E3779B1)) & ((1 << dw) - 1) for r, v in enumerate(init)]
    elif cfg["init"] == "B":
        init = [lane_token(20 + r, lanes, gran, 1) for r in range(max(1, rows - 1))]   # shorter than depth
    def form(image):
        # the image may be any iterable: a list, a tuple, or a one-shot iterator / generator
        f = cfg.get("init_form")
        return iter(list(image)) if f == "iter" else (x for x in list(image)) if f == "gen" else tuple(image) if f == "tuple" else image
    sram = WishboneSRAM(size=size, data_width=dw, granularity=gran, writable=cfg["writable"], init=form(init))
    if cfg.get("late_init"):
        # the image replaced through the `init` attribute after construction: full length, or shorter than the one it
        # replaces (the rest of the memory is zero then, as for a short constructor image)
        n = rows if cfg["late_init"] is True else max(0, rows - cfg["late_init"])
        init = [lane_token(30 + r, lanes, gran, 0) for r in range(n)]
        sram.init = form(init)
    expected_init = ([int(x) for x in init] + [0] * rows)[:rows]
    m = Module()
    m.submodules.sram = sram
    b = sram.wb_bus
    inputs = [("adr", b.adr), ("cyc", b.cyc), ("stb", b.stb), ("we", b.we), ("sel", b.sel), ("dat_w", b.dat_w)]
    mem = None
    for res, name, (start, end) in b.memory_map.resources():
        mem = res
    probes = [("ack", b.ack), ("dat_r", b.dat_r), ("mem", mem)]
    meta = dict(init=expected_init, init_attr=[int(x) for x in sram.init], map_range=(start, end), map_width=b.memory_map.data_width,
                map_addr_width=b.memory_map.addr_width, size=sram.size)
    return Harness(m, inputs, probes, meta)


class Observer:
    """obs = (rows tuple, pend) ; pend = None | (we, expected read data)"""
    def __init__(self, cfg, h, comp):
        self.cfg = cfg
        dw, gran, rows = cfg["dw"], cfg["gran"], cfg["rows"]
        self.lanes = dw // gran
        self.gran = gran
        self.writable = cfg["writable"]
        ii = comp.in_index
        self.ix = [ii[n] for n in ("adr", "cyc", "stb", "we", "sel", "dat_w")]
        self.pack, self.pdat, self.pmem = (comp.probe_index[n] for n in ("ack", "dat_r", "mem"))
        init = list(h.meta["init"]) + [0] * rows
        self.init = (tuple(init[:rows]), None)
        self.meta_err = None
        if h.meta["map_range"] != (0, rows * self.lanes) or h.meta["map_width"] != gran or h.meta["size"] != rows * self.lanes:
            self.meta_err = f"memory map reports {h.meta}"
        toks = [lane_token(0, self.lanes, gran, 0)]
        if cfg["tokens"] >= 2:
            toks.append(lane_token(0, self.lanes, gran, 1))
        if cfg["tokens"] >= 3:
            toks.append(lane_token(1, self.lanes, gran, 0))
        aw = comp.in_widths[ii["adr"]]
        sels = cfg.get("sel_set") or range(1 << self.lanes)
        adrs = cfg.get("adr_set") or range(1 << aw)
        self._letters = [l for l in itertools.product(adrs, (0, 1), (0, 1), (0, 1), sels, toks)]
        self.lane_masks = [((1 << gran) - 1) << (k * gran) for k in range(self.lanes)]

    def letters(self, obs):
        return self._letters

    def observe(self, obs, letter, outs):
        mem, pend = obs
        if self.meta_err:
            return dict(msg=self.meta_err, signature=dict(kind="metadata")), obs
        adr, cyc, stb, we, sel, dat_w = (letter[i] for i in self.ix)
        exp_ack = 1 if pend is not None else 0
        if outs[self.pack] != exp_ack:
            return dict(msg=f"ack={outs[self.pack]} expected {exp_ack}", signature=dict(kind="oracle", what="ack")), obs
        # (the array is compared whenever no transfer is pending: the cycle in which a write lands between
        # presentation and acknowledge is not fixed by the property)
        if pend is None and outs[self.pmem] != mem:
            return dict(msg=f"memory is {outs[self.pmem]}, expected {mem}", signature=dict(kind="oracle", what="memory")), obs
        if pend is not None and pend[0] == 0 and outs[self.pdat] != pend[1]:
            return dict(msg=f"read data {outs[self.pdat]:#x} with ack, expected {pend[1]:#x}",
                        signature=dict(kind="oracle", what="dat_r")), obs
        if pend is not None:
            return None, (mem, None)
        if cyc and stb:
            npend = (we, mem[adr])
            if we and self.writable:
                row = mem[adr]
                for k in range(self.lanes):
                    if (sel >> k) & 1:
                        row = (row & ~self.lane_masks[k]) | (dat_w & self.lane_masks[k])
                if row != mem[adr]:
                    mem = mem[:adr] + (row,) + mem[adr + 1:]
            return None, (mem, npend)
        return None, obs


def configs(tier):
    out = []
    quick = tier == "quick"
    for dw, gran in ((8, 8), (16, 8), (16, 16), (32, 8), (32, 16), (32, 32), (64, 32), (64, 64)) + (() if quick else ((64, 8), (64, 16))):
        lanes = dw // gran
        for rows in (1, 2, 4):
            for writable in (True, False):
                for init in ("zero", "A", "B"):
                    granules = rows * lanes
                    if not writable:
                        tokens = 1
                    elif granules <= 2:
                        tokens = 3
                    elif granules <= 4:
                        tokens = 2
                    elif granules <= 8:
                        tokens = 1
                    else:
                        continue      # state space 2^granules x latch: left out (stated bound)
                    if quick and (granules > 4 or (rows == 4 and init == "B")):
                        continue
                    out.append(dict(dw=dw, gran=gran, rows=rows, writable=writable, init=init, tokens=tokens))
    # eight lanes (64-bit data, byte granularity): select masks inside one half, in both halves, at both ends
    out.append(dict(dw=64, gran=8, rows=1, writable=True, init="A", tokens=1, sel_set=[0, 0x01, 0x80, 0x81, 0x0F, 0xF0, 0x3C, 0xFF, 0x18]))
    out.append(dict(dw=64, gran=16, rows=2, writable=True, init="zero", tokens=1, sel_set=[0, 1, 8, 9, 6, 15]))
    # many rows: a read-only memory (no state but the acknowledge) with 32 and 1024 distinct rows, a writable one with 8
    out.append(dict(dw=8, gran=8, rows=32, writable=False, init="A", tokens=1))
    out.append(dict(dw=16, gran=16, rows=1024, writable=False, init="A", tokens=1,
                    adr_set=[0, 1, 5, 16 + 5, 512 + 5, 528 + 5, 511, 512, 1023, 1023 - 16]))     # (addresses that differ in one or two bits)
    out.append(dict(dw=8, gran=8, rows=8, writable=True, init="B", tokens=1))
    out.append(dict(dw=16, gran=8, rows=2, writable=True, init="zero", tokens=2, late_init=True))
    out.append(dict(dw=16, gran=8, rows=2, writable=True, init="A", tokens=2, late_init=1))
    out.append(dict(dw=8, gran=8, rows=4, writable=False, init="A", tokens=1, late_init=2))
    out.append(dict(dw=32, gran=32, rows=2, writable=True, init="B", tokens=2, late_init=2))
    out.append(dict(dw=16, gran=8, rows=2, writable=True, init="A", tokens=2, init_form="iter"))
    out.append(dict(dw=8, gran=8, rows=4, writable=False, init="B", tokens=1, init_form="gen"))
    out.append(dict(dw=32, gran=16, rows=2, writable=True, init="A", tokens=2, init_form="tuple"))
    out.append(dict(dw=16, gran=16, rows=2, writable=True, init="zero", tokens=2, late_init=True, init_form="gen"))
    out.append(dict(dw=8, gran=8, rows=2, writable=False, init="A", tokens=1, late_init=1, init_form="iter"))
    out.append(dict(dw=16, gran=8, rows=2, writable=True, init="A", tokens=2, elab_twice=True))
    out.append(dict(dw=32, gran=16, rows=2, writable=False, init="A", tokens=1, elab_twice=True))
    out.append(dict(dw=8, gran=8, rows=4, writable=True, init="B", tokens=2, elab_twice=True))
    return out


def run_config(cfg, tier, seed):
    return explore_hw(build, Observer, cfg, tier, seed, max_states=1_500_000)


def replay(data):
    return rederive(build, Observer, data["cfg"], data["trace"], None)


def main(tier, seed):
    t0 = time.time()
    results = run_configs(run_config, configs(tier), tier, seed)
    cov = aggregate(results)
    cov["rule"] = ("geometries (data width 8-64, granularity <= width, 1/2/4 rows) x writable x init image; full "
                   "BFS; letters = all adr/cyc/stb/we/sel x 1-3 lane-tagged data tokens")
    return finish(PID, tier, seed, "model_checking", cov, ASSUMPTIONS, t0, results, min_explored=int(0.6 * len(results)))


ASSUMPTIONS = [
    "Amaranth 0.5.10 front end, build_netlist and Simulator are the trusted base",
    "rst held at 0", "write data restricted to 1-3 lane-tagged tokens (results hold for these data values)",
    "at most 8 granules of memory in total",
]
