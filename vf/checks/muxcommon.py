"""Shared by C04 (read side) and C05 (write side): csr.Multiplexer over stub registers, free driver,
RefCSR observer."""
import itertools

from amaranth import Module

from ..netlist import Harness
from ..ref.csr import RefCSR
from ..gen.muxlayouts import make_map


def value_tokens(width):
    """All values up to 2 bits; above that 0, ~0 and, for every binary digit d of the bit index, the pattern
    'bit i = digit d of i' and its complement: any two bit positions (hence any two chunks of a register, any
    two lanes of a bus word) differ in some token, and every bit takes both values."""
    if width == 0:
        return [0]
    if width <= 2:
        return list(range(1 << width))
    full = (1 << width) - 1
    toks = {0, full}
    d = 0
    while (1 << d) < width:
        p = 0
        for i in range(width):
            p |= ((i >> d) & 1) << i
        toks |= {p, p ^ full}
        d += 1
    return sorted(toks)


def compact_tokens(width):
    """0, ~0, 1010.., 0101..: enough to tell registers apart (used where many registers change at once)"""
    if width <= 2:
        return list(range(1 << width))
    full = (1 << width) - 1
    a = int("10" * width, 2) & full
    return sorted({0, full, a, a ^ full})


def build(cfg):
    from amaranth_soc import csr
    early = []

    def construct_early(mm):
        x = csr.Multiplexer(mm, shadow_overlaps=cfg["ov"])
        if cfg.get("early_elab"):
            # elaborated once (say, simulated on its own) while its map is still growing
            from amaranth.hdl import Fragment
            Fragment.get(x, None)
        early.append(x)
    mm, stubs = make_map(cfg, hook=construct_early)
    if cfg.get("swap"):
        # constructed over a placeholder map of the same geometry; the real map is assigned afterwards through the
        # public setter of the bus interface
        from amaranth_soc.memory import MemoryMap
        mux = csr.Multiplexer(MemoryMap(addr_width=cfg["aw"], data_width=cfg["dw"], alignment=cfg.get("align", 0)),
                              shadow_overlaps=cfg["ov"])
        mux.bus.memory_map = mm
    else:
        mux = early[0] if early else csr.Multiplexer(mm, shadow_overlaps=cfg["ov"])
    m = Module()
    m.submodules.mux = mux
    bus = mux.bus
    inputs = [("addr", bus.addr), ("r_stb", bus.r_stb), ("w_stb", bus.w_stb), ("w_data", bus.w_data)]
    probes = [("r_data", bus.r_data)]
    regs = []
    for k, (res, name, (start, end)) in enumerate(mm.resources()):
        # resources() is in address order; find which stub this is
        idx = [i for i, s in enumerate(stubs) if s is res][0]
        acc = res.element.access
        regs.append(dict(idx=idx, start=start, end=end, width=res.element.width,
                         rd=acc.readable(), wr=acc.writable()))
        if acc.readable():
            inputs.append((f"val{k}", res.element.r_data))
            probes.append((f"r_stb{k}", res.element.r_stb))
        if acc.writable():
            probes.append((f"w_stb{k}", res.element.w_stb))
            probes.append((f"w_data{k}", res.element.w_data))
    return Harness(m, inputs, probes, dict(regs=regs, dw=cfg["dw"], aw=cfg["aw"]))


def read_probes(h):
    return [n for n, _ in h.probes if n == "r_data" or n.startswith("r_stb")]


def write_probes(h):
    return [n for n, _ in h.probes if n.startswith("w_stb") or n.startswith("w_data")]


class MuxObserver:
    """side = 'r' checks the read half of RefCSR, 'w' the write half, 'rw' both."""
    side = "rw"
    tokens = staticmethod(value_tokens)

    def __init__(self, cfg, h, comp):
        regs = h.meta["regs"]
        self.regs = regs
        self.ref = RefCSR([(r["start"], r["end"], r["width"], r["rd"], r["wr"]) for r in regs], h.meta["dw"])
        self.init = RefCSR.INIT
        ii, pi = comp.in_index, comp.probe_index
        self.i_addr, self.i_r, self.i_w, self.i_wd = ii["addr"], ii["r_stb"], ii["w_stb"], ii["w_data"]
        self.i_val = {k: ii[f"val{k}"] for k, r in enumerate(regs) if r["rd"]}
        self.p_rdata = pi.get("r_data")
        self.p_rstb = {k: pi[f"r_stb{k}"] for k, r in enumerate(regs) if r["rd"] and f"r_stb{k}" in pi}
        self.p_wstb = {k: pi[f"w_stb{k}"] for k, r in enumerate(regs) if r["wr"] and f"w_stb{k}" in pi}
        self.p_wdata = {k: pi[f"w_data{k}"] for k, r in enumerate(regs) if r["wr"] and f"w_data{k}" in pi}
        # letters: every input in the structural support of the probes takes all its values (register
        # values: token sets); inputs outside the cone are held at 0 (they cannot matter)
        # The inputs the REFERENCE depends on are enumerated whatever the netlist says (a multiplexer whose probes are
        # not connected to the bus at all has an empty structural support and would otherwise be "checked" with a
        # single all-zero letter).
        declared = {"addr"}
        if "r" in self.side:
            declared |= {"r_stb"} | {f"val{k}" for k in self.i_val}
        if "w" in self.side:
            declared |= {"w_stb", "w_data"}
        doms = []
        for name, w in zip(comp.in_names, comp.in_widths):
            if name == "addr" and cfg.get("addr_set"):
                doms.append(sorted(cfg["addr_set"]))        # wide address buses: the registers' addresses and near misses
            elif (name not in comp.support and name not in declared) or w == 0:
                doms.append((0,))
            elif name.startswith("val") or (name == "w_data" and w > 2):
                doms.append(self.tokens(w))
            else:
                doms.append(range(1 << w))
        self._letters = list(itertools.product(*doms))

    def letters(self, obs):
        return self._letters

    def observe(self, st, letter, outs):
        addr, r_stb, w_stb, w_data = letter[self.i_addr], letter[self.i_r], letter[self.i_w], letter[self.i_wd]
        i_val = self.i_val
        exp_r_stb, exp_rd, exp_w, nst = self.ref.step(st, addr, r_stb, w_stb, w_data,
                                                      lambda k: letter[i_val[k]])
        if "r" in self.side:
            for k, p in self.p_rstb.items():
                e = 1 if k in exp_r_stb else 0
                if outs[p] != e:
                    return dict(msg=f"register {k} r_stb={outs[p]} expected {e} (addr={addr}, bus r_stb={r_stb})",
                                signature=dict(kind="oracle", what="r_stb")), nst
            if self.p_rdata is not None:
                got = outs[self.p_rdata]
                if exp_rd[0] == "zero" and got != 0:
                    return dict(msg=f"bus r_data={got:#x} but no chunk of a readable register was read in the previous cycle",
                                signature=dict(kind="oracle", what="r_data_zero")), nst
                if exp_rd[0] == "val" and got != exp_rd[1]:
                    return dict(msg=f"bus r_data={got:#x} expected {exp_rd[1]:#x} (slice of the value captured at the first chunk)",
                                signature=dict(kind="oracle", what="r_data")), nst
        if "w" in self.side:
            for k, p in self.p_wstb.items():
                e = 1 if (exp_w is not None and exp_w[0] == k) else 0
                if outs[p] != e:
                    return dict(msg=f"register {k} w_stb={outs[p]} expected {e}",
                                signature=dict(kind="oracle", what="w_stb")), nst
            if exp_w is not None:
                k, chunks = exp_w
                if k in self.p_wdata:
                    m, v = self.ref.w_expect(k, chunks)
                    got = outs[self.p_wdata[k]]
                    if got & m != v:
                        return dict(msg=f"register {k} w_data={got:#x} expected {v:#x} under mask {m:#x} (chunks {chunks})",
                                    signature=dict(kind="oracle", what="w_data")), nst
        return None, nst
