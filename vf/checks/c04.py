"""C04 - CSR multiplexer reads are atomic snapshots and side-effect exact.

Full BFS of the real multiplexer netlist (read cone) per register layout under a FREE driver: every
(addr, r_stb) and every register value token in every cycle.  Inputs outside the structural cone of
the read probes (today: w_stb, w_data) are held at 0, which is sound because the netlist proves they
cannot influence a read probe, and the reference is never stricter with writes present.
Oracle: RefCSR (read half): strobe exactness and zero-when-idle on ALL sequences, snapshot data on
conforming ones.
"""
import time

from ..hw import explore_hw, aggregate, rederive
from ..common import run_configs, finish
from ..gen.muxlayouts import layouts
from .muxcommon import build, MuxObserver, read_probes

PID = "C04"


class Observer(MuxObserver):
    side = "r"


def configs(tier):
    ls = layouts(tier)
    # the same instance elaborated twice (the second elaboration is explored): every finite sharing limit
    twice = [dict(l, elab_twice=True) for l in ls if l["ov"] == 0 and len(l["regs"]) >= 2][::4]
    # the multiplexer constructed while its memory map is still growing (it does not freeze the map): registers
    # added afterwards must be served like the others
    many = [l for l in ls if len(l["regs"]) >= 2]
    late = [dict(l, late=(i % len(l["regs"]))) for i, l in enumerate(many[::7])]
    late += [dict(l, late=(i % len(l["regs"])), early_elab=True) for i, l in enumerate(many[3::11])]
    late += [dict(l, swap=True) for l in many[5::13]]
    return ls + twice + late


def run_config(cfg, tier, seed):
    return explore_hw(build, Observer, cfg, tier, seed, only=read_probes)


def replay(data):
    return rederive(build, Observer, data["cfg"], data["trace"], read_probes)


def main(tier, seed):
    t0 = time.time()
    results = run_configs(run_config, configs(tier), tier, seed)
    cov = aggregate(results)
    cov["rule"] = ("register layouts from vf/gen/muxlayouts.py (widths 0..2*dw+1 (thorough 4*dw), r/w/rw, implicit/explicit/"
                   "unaligned/padded placement, map alignment, shadow_overlaps None/0/1/2) x full BFS, free driver")
    return finish(PID, tier, seed, "model_checking", cov, ASSUMPTIONS, t0, results, min_explored=int(0.9 * sum(1 for r in results if r["cfg"].get("late") is None and not r["cfg"].get("swap"))))


ASSUMPTIONS = [
    "Amaranth 0.5.10 front end, build_netlist and Simulator are the trusted base", "rst held at 0",
    "bus data width 1-2, address width 3 (thorough: 4); register values from token sets {0, ~0, 1010.., 0101..} above 2 bits",
    "inputs outside the structural cone of influence of the checked probes are held at 0",
]
