"""C11 - register fields are packed LSB-first, contiguously, and strobed by access mode.

Field-collection grammar (single field, dicts, lists, nesting to depth 3, annotation-defined) x field
shapes x field access modes x register access modes.  Construction: accepted iff every field's access
mode is served by the register's.  Hardware (combinational, one state): every value of the element
port and of every field's read data, via the support-factored explorer.  Oracle: packing reference.
"""
import itertools
import time

from amaranth import Module, unsigned, signed
from amaranth.hdl import Shape
from amaranth.lib import enum as aenum

from ..netlist import Harness
from ..hw import explore_comb, aggregate, replay_comb
from ..common import run_configs, finish, is_refusal, describe_exc

PID = "C11"


class E2(aenum.Enum, shape=unsigned(2)):
    A = 0
    B = 1
    C = 2
    D = 3


SHAPES = {"u0": lambda: unsigned(0), "u1": lambda: unsigned(1), "u2": lambda: unsigned(2), "u3": lambda: unsigned(3),
          "s1": lambda: signed(1), "s2": lambda: signed(2), "s3": lambda: signed(3), "e2": lambda: E2,
          "r5": lambda: range(5), "u8": lambda: unsigned(8), "s8": lambda: signed(8), "u12": lambda: unsigned(12),
          "s5": lambda: signed(5)}


def swidth(name):
    return Shape.cast(SHAPES[name]()).width


# structures: nested lists/dicts whose leaves are integers = index into the leaf list
STRUCTS = {
    "single": 0,
    "dict2": {"a": 0, "b": 1},
    "list2": [0, 1],
    "dict3": {"a": 0, "b": 1, "c": 2},
    "list3": [0, 1, 2],
    "dict_list": {"a": [0, 1], "b": 2},
    "list_dict": [{"x": 0, "y": 1}, 2],
    "deep": {"a": [0, {"x": 1, "y": 2}], "b": 3},
    "deep2": [[0, 1], {"p": [2], "q": 3}, 4],
    # names that spell another field's path (with the separators a flattened name might use), sibling lists with the
    # same inner keys
    "dotted": {"a": {"b": 0}, "a.b": 1, "a_b": 2},
    "under": {"a": {"b": 0}, "a__b": 1},
    "twins": {"tx": [{"en": 0}], "rx": [{"en": 1}, {"en": 2}]},
    "index_names": {"x": [0, 1], "x.0": 2, "x__1": 3},
}


def n_leaves(s):
    if isinstance(s, int):
        return 1
    vals = s.values() if isinstance(s, dict) else s
    return sum(n_leaves(v) for v in vals)


def flatten(s, path=()):
    if isinstance(s, int):
        yield path, s
    elif isinstance(s, dict):
        for k, v in s.items():
            yield from flatten(v, path + (k,))
    else:
        for k, v in enumerate(s):
            yield from flatten(v, path + (k,))


def make_register(cfg):
    from amaranth_soc import csr

    class StubAction(csr.FieldAction):
        def __init__(self, shape, access):
            super().__init__(shape, access)

        def elaborate(self, platform):
            return Module()

    leaves = cfg["leaves"]

    def mk(s):
        if isinstance(s, int):
            sh, acc = leaves[s]
            return csr.Field(StubAction, SHAPES[sh](), acc)
        if isinstance(s, dict):
            return {k: mk(v) for k, v in s.items()}
        return [mk(v) for v in s]

    struct = STRUCTS[cfg["struct"]]
    if cfg.get("annot"):
        fields = mk(struct)
        if not isinstance(fields, dict):
            fields = {"f": fields}
        ann = dict(fields)
        if len(cfg["leaves"]) % 2:           # other annotations in between must be ignored, order kept
            ann = {}
            for i, (k, v) in enumerate(fields.items()):
                if i == 1:
                    ann["not_a_field"] = int
                ann[k] = v
            ann["also_not"] = "str"
        base = csr.Register
        if cfg.get("inherit"):
            # an annotated register class derived from ANOTHER annotated register class (which is used first): the
            # derived class's own annotations define its fields
            base = type("BaseReg", (csr.Register,),
                        {"__annotations__": {"zz_base": csr.Field(StubAction, SHAPES["u3"](), {"r": "r", "w": "w", "rw": "rw"}[cfg["racc"]])}},
                        access=cfg["racc"])
            base()
        cls = type("AnnReg", (base,), {"__annotations__": ann}, access=cfg["racc"])
        return cls()
    return csr.Register(mk(struct), access=cfg["racc"])


def compatible(cfg):
    r = cfg["racc"]
    for sh, acc in cfg["leaves"][:n_leaves(STRUCTS[cfg["struct"]])]:
        if acc in ("r", "rw") and "r" not in r:
            return False
        if acc in ("w", "rw") and "w" not in r:
            return False
    return True


def build(cfg):
    reg = make_register(cfg)
    m = Module()
    m.submodules.reg = reg
    el = reg.element
    inputs, probes = [], []
    if el.access.readable():
        inputs.append(("e_r_stb", el.r_stb))
        probes.append(("e_r_data", el.r_data))
    if el.access.writable():
        inputs += [("e_w_stb", el.w_stb), ("e_w_data", el.w_data)]
    struct = STRUCTS[cfg["struct"]]
    if cfg.get("annot") and not isinstance(struct, dict):
        struct = {"f": struct}
    exp_paths = [p for p, _ in flatten(struct)]
    got = list(reg)
    meta = dict(width=el.width, paths_ok=[tuple(p) for p, _ in got] == exp_paths,
                paths=[list(map(str, p)) for p, _ in got])
    for k, (path, field) in enumerate(got):
        port = field.port
        if port.access.readable():
            inputs.append((f"f{k}_r_data", port.r_data))
        probes += [(f"f{k}_r_stb", port.r_stb), (f"f{k}_w_stb", port.w_stb), (f"f{k}_w_data", port.w_data)]
    return Harness(m, inputs, probes, meta)


class Ref:
    def __init__(self, cfg, h, comp):
        self.ii, self.pi = comp.in_index, comp.probe_index
        self.widths = dict(zip(comp.in_names, comp.in_widths))
        struct = STRUCTS[cfg["struct"]]
        order = [i for _, i in flatten(struct)]
        self.fields = []
        off = 0
        for k, i in enumerate(order):
            sh, acc = cfg["leaves"][i]
            w = swidth(sh)
            self.fields.append(dict(k=k, off=off, w=w, rd=acc in ("r", "rw"), wr=acc in ("w", "rw")))
            off += w
        self.total = off
        self.meta_err = None
        if h.meta["width"] != off:
            self.meta_err = f"register width {h.meta['width']}, expected the sum of the field widths {off}"
        elif not h.meta["paths_ok"]:
            self.meta_err = f"field order {h.meta['paths']} is not declaration order"
        self.declared = {"e_r_data": {f"f{f['k']}_r_data" for f in self.fields if f["rd"]}}
        for f in self.fields:
            self.declared[f"f{f['k']}_r_stb"] = {"e_r_stb"} & set(self.ii)
            self.declared[f"f{f['k']}_w_stb"] = {"e_w_stb"} & set(self.ii)
            self.declared[f"f{f['k']}_w_data"] = {"e_w_data", "e_w_stb"} & set(self.ii)

    def what(self, p):
        return p.split("_", 1)[1] if p[0] == "f" else p

    def alphabet(self, name, wide):
        w = self.widths[name]
        if w <= 8 and (wide or w <= 3):
            return list(range(1 << w))
        full = (1 << w) - 1
        if wide:
            return sorted({0, full} | {1 << i for i in range(w)} | {full ^ (1 << i) for i in range(w)})
        a = int(("10100101" * 4)[-w:], 2)
        return sorted({0, full, a, a ^ full, 1 << (w - 1)})

    def expected(self, letter):
        if self.meta_err:
            return {"__error__": self.meta_err}
        ii = self.ii
        g = lambda n: letter[ii[n]] if n in ii else 0
        exp = {}
        rd = 0
        for f in self.fields:
            k = f["k"]
            if f["rd"]:
                rd |= g(f"f{k}_r_data") << f["off"]
            exp[f"f{k}_r_stb"] = g("e_r_stb") if f["rd"] else 0
            exp[f"f{k}_w_stb"] = g("e_w_stb") if f["wr"] else 0
            # "a register write hands each writable field exactly its own bit range": compared during a write
            # (w_data is only valid with w_stb); what non-writable fields see on w_data is not constrained
            exp[f"f{k}_w_data"] = (((g("e_w_data") >> f["off"]) & ((1 << f["w"]) - 1))
                                   if (f["wr"] and g("e_w_stb")) else None)
        if "e_r_data" in self.pi:
            exp["e_r_data"] = rd
        return exp


POOL = [("u1", "rw"), ("s2", "r"), ("u2", "w"), ("u3", "nc"), ("e2", "rw"), ("u0", "r"), ("s3", "rw"),
        ("r5", "w"), ("s1", "nc"), ("u2", "r"), ("s2", "w"), ("u1", "nc")]


def configs(tier):
    quick = tier == "quick"
    out, seen = [], set()

    def add(c):
        k = repr(c)
        if k not in seen:
            seen.add(k); out.append(c)

    # wide registers (16-32 bits): walking / pattern tokens instead of all values
    WIDE = [("u8", "rw"), ("s8", "r"), ("u12", "w"), ("s5", "rw"), ("u3", "nc"), ("s8", "rw"), ("u8", "r")]
    for sname in ("dict3", "list3", "deep", "dict_list"):
        n = n_leaves(STRUCTS[sname])
        for r in range(len(WIDE)):
            leaves = [WIDE[(r + 2 * j) % len(WIDE)] for j in range(n)]
            add(dict(struct=sname, leaves=leaves, racc="rw", wide=True))
            if not quick:
                add(dict(struct=sname, leaves=leaves, racc="rw", wide=True, annot=True))
    for sname, struct in STRUCTS.items():
        n = n_leaves(struct)
        if n <= 2 or (n == 3 and not quick):
            combos = itertools.product(POOL, repeat=n)
        else:
            # every rotation of the pool plus all-same-access rows: each position meets each spec
            combos = [tuple(POOL[(r + j * s) % len(POOL)] for j in range(n)) for r in range(len(POOL)) for s in (1, 5, 7)]
            combos += [tuple((POOL[(r + j) % len(POOL)][0], acc) for j in range(n)) for r in range(0, len(POOL), 3)
                       for acc in ("r", "w", "rw", "nc")]
        for leaves in combos:
            if sum(swidth(sh) for sh, _ in leaves) > 8:
                continue      # (the wide registers above are enumerated with token alphabets)
            for racc in ("r", "w", "rw"):
                add(dict(struct=sname, leaves=list(leaves), racc=racc))
                if not quick or sname in ("dict2", "deep"):
                    add(dict(struct=sname, leaves=list(leaves), racc=racc, annot=True))
    # the same Register object elaborated a second time (the second elaboration is what is checked)
    multi = [c for c in out if len(c["leaves"]) >= 2]
    out += [dict(c, elab_twice=True) for c in multi[::(97 if quick else 23)]]
    out += [dict(c, inherit=True) for c in out if c.get("annot") and not c.get("elab_twice")][::(29 if quick else 7)]
    return out


def run_config(cfg, tier, seed):
    ok = compatible(cfg)
    try:
        make_register(cfg)
        accepted, exc = True, None
    except Exception as e:
        accepted, exc = False, e
    if not ok:
        if accepted:
            return dict(violation=dict(kind="construction", err=dict(msg="a field whose access mode the register cannot serve was accepted"),
                                       signature=dict(kind="oracle", what="accepted_incompatible")))
        if not isinstance(exc, (ValueError, TypeError)):
            d = describe_exc(exc)
            return dict(violation=dict(kind="construction", err=d, signature=dict(kind="internal_error", type=d["type"])))
        return dict(refused=True, expected_refusal=True)
    if not accepted:
        d = describe_exc(exc)
        return dict(violation=dict(kind="construction", err=dict(msg="a compatible field collection was rejected", exc=d),
                                   signature=dict(kind="oracle", what="rejected_compatible")))
    return explore_comb(build, Ref, cfg, tier, seed)


def replay(data):
    cfg = data["cfg"]
    if data.get("kind") == "construction":
        r = run_config(cfg, "quick", 0)
        v = r.get("violation")
        return (v["err"], "construction") if v else (None, None)
    return replay_comb(build, Ref, cfg, data["trace"])


def main(tier, seed):
    t0 = time.time()
    results = run_configs(run_config, configs(tier), tier, seed)
    cov = aggregate(results)
    cov["constructions_checked"] = len(results)
    cov["expected_refusals_observed"] = sum(1 for r in results if r.get("expected_refusal"))
    cov["rule"] = ("9 collection shapes (single/dict/list/nested to depth 3, <=5 leaves, also annotation-defined) x leaf specs from a "
                   "12-entry pool (unsigned 0-3, signed 1-3, enum, range; r/w/rw/nc) x register access r/w/rw; all port values (width<=8)")
    return finish(PID, tier, seed, "model_checking", cov, ASSUMPTIONS, t0, results, min_explored=int(0.35 * len(results)))


ASSUMPTIONS = [
    "Amaranth 0.5.10 front end, build_netlist and Simulator are the trusted base",
    "registers are combinational (asserted per netlist): transitions = evaluated letters of the single state",
    "total register width <= 8 bits: every value of every port is enumerated; registers flagged wide (up to 36 bits): walking-1/"
    "walking-0 tokens per port (thinned to 5 pattern tokens when a support product exceeds 40000)",
]
