"""C17 - CSR builder lays registers out deterministically at the promised offsets.

Engine H: BFS over builder call histories (add with names / widths / offsets valid and invalid,
Cluster and Index scopes entered and left, freeze, as_memory_map possibly twice, add after freeze, the
same register twice) on real csr.Builder objects.  Every history ends with as_memory_map() on the real
object, and the resulting map (or its refusal) is compared with RefBuilder, a direct transcription of
the property's sentence.
"""
import time

from ..history import hbfs
from ..common import finish, JOBS

PID = "C17"

_POOL = {}
_NEXT = {}


def reg(width):
    """Registers are never elaborated and every history uses a fresh Builder: reuse objects."""
    if width not in _POOL:
        from amaranth_soc import csr
        from amaranth_soc.csr import action

        class R(csr.Register, access="rw"):
            def __init__(self, w):
                super().__init__({"f": csr.Field(action.RW, w)})
        _POOL[width] = [R(width) for _ in range(10)]
    k = _NEXT.get(width, 0)
    _NEXT[width] = k + 1
    return _POOL[width][k % 10]


_BY = []


def by_reg(i):
    if not _BY:
        from amaranth_soc import csr
        from amaranth_soc.csr import action

        class RB(csr.Register, access="rw"):
            def __init__(self):
                super().__init__({"f": csr.Field(action.RW, 1)})
        _BY.extend(RB() for _ in range(24))
    return _BY[i % len(_BY)]


def clog2(n):
    return (n - 1).bit_length() if n > 0 else 0


def letters_for_cfg(cfg):
    dw, g = cfg["dw"], cfg["g"]
    ratio = dw // g
    if cfg.get("alphabet") == "scopes":
        # scope bookkeeping needs longer histories (re-entering a name / an index that is already open)
        return [("cluster", "a"), ("cluster", "k"), ("index", 0), ("index", 1), ("leave",), ("add", "r", 1, None),
                ("add", "s", dw + 1, None), ("raise_out",)]
    if cfg.get("alphabet") == "huge":
        # offsets beyond 2**53 (where a float can no longer hold every integer), odd ones included
        return [("addp", dw, 2 ** 53 * ratio), ("addp", dw, (2 ** 53 + 1) * ratio), ("addp", dw, (2 ** 54 + 5) * ratio), ("addp", 2 * dw, None),
                ("addp", dw, None), ("addp", 3 * dw, None), ("addp", 1, (2 ** 55 - 1) * ratio)]
    if cfg.get("alphabet") == "many":
        # long histories of valid additions (fresh positional names): 5+ registers, wide ones, explicit offsets in between
        return ([("addp", w, None) for w in (1, dw + 1, 3 * dw, 5 * dw)] + [("addp", 1, k * ratio) for k in (1, 6, 11)]
                + [("addp", 2 * dw, 12 * ratio), ("addp", 3 * dw, 21 * ratio)])
    L = []
    widths = [0, 1, dw, dw + 1, 3 * dw]
    for name in ("a", "b"):
        for w in widths:
            L.append(("add", name, w, None))
    for w in (1, dw + 1):
        for off in (0, ratio, 2 * ratio, 3 * ratio, 5 * ratio):
            L.append(("add", "c", w, off))
    L.append(("add", "d", 3 * dw, 2 * ratio))
    # three bus words (rounded up to four) whose raw size just fits below the top of the address space
    L.append(("add", "t", 3 * dw, ((1 << cfg["aw"]) - 3) * ratio))
    if ratio > 1:
        L.append(("add", "e", 1, 1))                 # not a multiple of data_width // granularity
    L += [("add", "e", 1, -ratio), ("add", "", 1, None), ("add", 5, 1, None), ("add_notreg", "x"), ("add_same", "y"),
          ("add", "e", 1, "0")]
    L += [("cluster", "a"), ("cluster", "k"), ("cluster", ""), ("index", 0), ("index", 1), ("index", -1), ("leave",),
          ("raise_out",), ("freeze",), ("as_map",)]
    return L


def conflicts(name, names):
    for v in names:
        k = min(len(v), len(name))
        if all(type(x) is type(y) and x == y for x, y in zip(v[:k], name[:k])):
            return True
    return False


def ref_cursor(cfg, regs):
    """end of the most recently added register (where the next implicit one starts looking), or None"""
    aw, dw, g = cfg["aw"], cfg["dw"], cfg["g"]
    cursor = 0
    for path, width, offset in regs:
        size = 1 << clog2(max(1, -(-width // dw)))
        start = offset * g // dw if offset is not None else -(-cursor // size) * size
        cursor = start + size
    return cursor


def ref_layout(cfg, regs):
    """The property's sentence as a function: registers (path, width, offset) in insertion order ->
    sorted [(path, start, end)] or None when the layout must be rejected."""
    aw, dw, g = cfg["aw"], cfg["dw"], cfg["g"]
    placed, names = [], []
    cursor = 0
    for path, width, offset in regs:
        size = 1 << clog2(max(1, -(-width // dw)))
        if offset is not None:
            start = offset * g // dw
        else:
            start = -(-cursor // size) * size
        end = start + size
        if end > (1 << aw) or any(not (end <= s or e <= start) for _, s, e in placed) or conflicts(path, names):
            return None
        placed.append((path, start, end))
        names.append(path)
        cursor = end
    return sorted(placed, key=lambda x: x[1])


def execute_factory(cfg):
    def execute(history, parent_key):
        from amaranth_soc import csr
        _NEXT.clear()
        b = csr.Builder(addr_width=cfg["aw"], data_width=cfg["dw"], granularity=cfg["g"])
        regs = []                # reference: (path, width, offset) of accepted adds
        scopes, cms = [], []
        frozen = False           # True / False / None = not determined by the property (after a failed as_memory_map)
        unknown = False          # an argument outside the property's domain was ACCEPTED: layout no longer predicted
        first_reg = None
        err = None
        ratio = cfg["dw"] // cfg["g"]
        # a second, independent builder that is filled in step with the first one (inside a cluster of its own):
        # two builders share nothing, whatever scopes are open in the other
        by = cm_by = None
        if cfg.get("bystander"):
            by = csr.Builder(addr_width=6, data_width=cfg["dw"], granularity=cfg["g"])
            cm_by = by.Cluster("by")
            cm_by.__enter__()
        for pos, op in enumerate(history):
            last = pos == len(history) - 1
            kind = op[0]
            raised = None
            exp = "ok"           # "ok" must accept / "refuse" must raise / "either"
            appended = None
            try:
                if kind in ("add", "addp"):
                    if kind == "add":
                        _, name, w, off = op
                    else:
                        _, w, off = op
                        name = f"n{pos}"
                    valid_name = isinstance(name, str) and name != ""
                    valid_off = off is None or (isinstance(off, int) and not isinstance(off, bool) and off >= 0 and off % ratio == 0)
                    if not (valid_name and valid_off):
                        exp = "either"      # invalid names / offsets: the property does not say what happens to them
                    elif frozen is True:
                        exp = "refuse"
                    elif frozen is None:
                        exp = "either"
                    elif ref_layout(cfg, regs + [(tuple(scopes) + (name,), w, off)]) is None:
                        exp = "either"      # the layout becomes invalid: rejected now or at as_memory_map()
                    r = reg(w)
                    b.add(name, r, offset=off)
                    if first_reg is None:
                        first_reg = r
                    appended = (tuple(scopes) + (name,), w, off)
                    if not (valid_name and valid_off):
                        unknown = True
                elif kind == "add_notreg":
                    exp = "either"
                    b.add(op[1], object())
                    unknown = True
                elif kind == "add_same":
                    exp = "either"
                    if first_reg is None:
                        raise ValueError("nothing to repeat")      # letter not enabled: behaves like a refusal
                    b.add(op[1], first_reg)
                    unknown = True
                elif kind == "cluster":
                    valid = isinstance(op[1], str) and op[1] != ""
                    exp = "ok" if (valid and frozen is False) else "either"    # (a frozen builder may refuse new scopes)
                    cm = b.Cluster(op[1])
                    cm.__enter__()
                    cms.append(cm); scopes.append(op[1])
                    if not valid:
                        unknown = True
                elif kind == "index":
                    valid = isinstance(op[1], int) and op[1] >= 0
                    exp = "ok" if (valid and frozen is False) else "either"
                    cm = b.Index(op[1])
                    cm.__enter__()
                    cms.append(cm); scopes.append(op[1])
                    if not valid:
                        unknown = True
                elif kind == "leave":
                    if cms:
                        cms.pop().__exit__(None, None, None)
                        scopes.pop()
                elif kind == "raise_out":
                    # an exception raised inside the innermost scope propagates out of every `with` block
                    # (what a refused add inside nested scopes does in user code): all scopes are left
                    exc = ValueError("raised inside the scopes")
                    while cms:
                        try:
                            cms.pop().__exit__(ValueError, exc, None)
                        except ValueError:
                            pass
                        scopes.pop()
                elif kind == "freeze":
                    b.freeze()
                    frozen = True
                elif kind == "as_map":
                    want_now = ref_layout(cfg, regs)
                    exp = "either" if unknown else ("ok" if want_now is not None else "refuse")
                    # a successful as_memory_map() freezes; whether a failed one does is not stated
                    frozen = True if (want_now is not None or frozen is True) else None
                    b.as_memory_map()
            except (ValueError, TypeError) as e:
                raised = e
            except Exception as e:
                raised = e
                if last:
                    err = dict(msg=f"{op}: {type(e).__name__}: {e}", signature=dict(kind="oracle", what="internal_error"))
            if raised is None and appended is not None:
                regs.append(appended)
            if by is not None:
                try:
                    by.add(f"s{pos}", by_reg(pos))
                except Exception as e:
                    err = err or dict(msg=f"a second, independent builder refused a valid register after {op}: {type(e).__name__}: {e}",
                                      signature=dict(kind="oracle", what="bystander"))
            if last and err is None:
                if exp == "ok" and raised is not None:
                    err = dict(msg=f"{op} was refused ({type(raised).__name__}: {str(raised)[:100]}) but is valid",
                               signature=dict(kind="oracle", what="valid_refused"))
                elif exp == "refuse" and raised is None:
                    err = dict(msg=f"{op} was accepted but must be refused (frozen={frozen})",
                               signature=dict(kind="oracle", what="invalid_accepted"))
        # ---- observation: the real memory map (as_memory_map on the real object) --------------------------
        want = ref_layout(cfg, regs)
        try:
            mm = b.as_memory_map()
            got = [(tuple(name), s, e) for _, name, (s, e) in mm.resources()]
            shape_ok = (mm.addr_width, mm.data_width) == (cfg["aw"], cfg["dw"])
        except ValueError:
            got, shape_ok = None, True
        except Exception as e:
            got, shape_ok = None, True
            err = err or dict(msg=f"as_memory_map(): {type(e).__name__}: {e}", signature=dict(kind="oracle", what="internal_error"))
        if by is not None and err is None:
            try:
                cm_by.__exit__(None, None, None)
                got2 = [(tuple(name), s, e) for _, name, (s, e) in by.as_memory_map().resources()]
                want2 = [(("by", f"s{i}"), i, i + 1) for i in range(len(history))]
                if got2 != want2:
                    err = dict(msg=f"a second, independent builder filled in step with this one has layout {got2}, expected {want2}",
                               signature=dict(kind="oracle", what="bystander"))
            except Exception as e:
                err = dict(msg=f"a second, independent builder filled in step with this one: {type(e).__name__}: {e}",
                           signature=dict(kind="oracle", what="bystander"))
        while cms:                     # leave open scopes in LIFO order (keeps the garbage collector quiet)
            try:
                cms.pop().__exit__(None, None, None)
            except Exception:
                pass
        # (the cursor is part of the key: the same layout reached in another insertion order continues differently)
        canon = (None if got is None else tuple(got), tuple(scopes), frozen, unknown, ref_cursor(cfg, regs) if got is not None else None)
        if err is None and not unknown:
            if got is None and want is not None:
                err = dict(msg=f"as_memory_map() refused a valid layout; expected {want}", signature=dict(kind="oracle", what="layout_refused"))
            elif got is not None and want is None:
                err = dict(msg=f"as_memory_map() accepted {got} although the layout overlaps / collides / overflows (registers {regs})",
                           signature=dict(kind="oracle", what="layout_accepted"))
            elif got is not None and [(tuple(map(repr, n)), s, e) for n, s, e in got] != [(tuple(map(repr, n)), s, e) for n, s, e in want]:
                err = dict(msg=f"layout {got}, expected {want}", signature=dict(kind="oracle", what="layout"))
            elif not shape_ok:
                err = dict(msg="memory map geometry differs from the builder's", signature=dict(kind="oracle", what="geometry"))
        return canon, err
    return execute


def configs(tier):
    geos = [dict(aw=3, dw=8, g=8), dict(aw=2, dw=16, g=8), dict(aw=3, dw=32, g=8), dict(aw=3, dw=32, g=16), dict(aw=4, dw=16, g=16)]
    depth = 3 if tier == "quick" else 4
    out = [dict(g_, depth=depth + (1 if (tier == "quick" and k in (1, 3)) else 0)) for k, g_ in enumerate(geos)]
    out.append(dict(aw=4, dw=8, g=8, alphabet="scopes", depth=6 if tier == "quick" else 8))
    out.append(dict(aw=5, dw=8, g=8, alphabet="many", depth=5 if tier == "quick" else 7))
    out.append(dict(aw=5, dw=32, g=16, alphabet="many", depth=4 if tier == "quick" else 6))
    out.append(dict(aw=56, dw=8, g=8, alphabet="huge", depth=3 if tier == "quick" else 4))
    out.append(dict(aw=57, dw=16, g=8, alphabet="huge", depth=2 if tier == "quick" else 3))
    out.append(dict(aw=4, dw=8, g=8, alphabet="scopes", depth=4 if tier == "quick" else 6, bystander=True))
    out.append(dict(aw=3, dw=16, g=8, depth=2 if tier == "quick" else 3, bystander=True))
    if tier != "quick":
        out += [dict(aw=2, dw=8, g=8, depth=5), dict(aw=3, dw=64, g=16, depth=3), dict(aw=4, dw=8, g=4, depth=3)]
    return out


def replay(data):
    ex = execute_factory(data["cfg"])
    hist = tuple(tuple(op) for op in data["history"])
    _, err = ex(hist, None)
    return err, len(hist)


def main(tier, seed):
    t0 = time.time()
    results = []
    cov = dict(states=0, transitions=0, traces_validated_against_impl=0, samples=[], configs=0, max_depth=0, per_config=[],
               outcomes={})
    for cfg in configs(tier):
        L = letters_for_cfg(cfg)
        hr = hbfs(L, execute_factory(cfg), max_depth=cfg["depth"], jobs=JOBS, chunk=8)
        res = dict(cfg=cfg)
        if hr.violation:
            v = hr.violation
            res["violation"] = dict(kind="history", err=v["err"], history=v["history"], signature=v["err"].get("signature", {}))
        results.append(res)
        cov["states"] += hr.states
        cov["transitions"] += hr.transitions
        cov["traces_validated_against_impl"] += hr.transitions
        cov["configs"] += 1
        cov["max_depth"] = max(cov["max_depth"], hr.max_depth)
        for k, v in hr.outcomes.items():
            cov["outcomes"][k] = cov["outcomes"].get(k, 0) + v
        cov["per_config"].append(dict(cfg=cfg, letters=len(L), states=hr.states, transitions=hr.transitions, levels=hr.level_sizes))
        if hr.samples:
            cov["samples"].append(dict(cfg=cfg, history=hr.samples[-1]))
    cov["exhaustive"] = False
    cov["rule"] = ("all builder call histories to the stated depth over ~40 letters per geometry; states merged on (real memory map "
                   "produced by as_memory_map(), scope stack, frozen); every history ends in a real as_memory_map() compared with RefBuilder")
    return finish(PID, tier, seed, "model_checking", cov, ASSUMPTIONS, t0, results)


ASSUMPTIONS = [
    "depth-bounded histories; 5 (thorough 8) builder geometries",
    "an explicit offset that is not aligned to the register's own size is placed exactly where requested (the property "
    "promises the exact offset; natural alignment is only promised for implicit placement)",
]
