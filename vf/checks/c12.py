"""C12 - field actions keep, set and clear storage exactly as documented, for all time.

Full BFS over the storage of each action (real netlist) with a free driver: every combination of
write strobe, write data, read strobe and hardware set/clear/read-data inputs in every cycle.
Oracle: per-bit next-state table transcribed from the property statement.
"""
import enum as pyenum
import itertools
import time

from amaranth import Module, unsigned, signed
from amaranth.hdl import Shape
from amaranth.lib import enum as aenum, data as adata

from ..netlist import Harness
from ..hw import explore_hw, aggregate
from ..common import run_configs, finish

PID = "C12"


class E2(aenum.Enum, shape=unsigned(2)):
    A = 0
    B = 1
    C = 2
    D = 3


class F3(aenum.Flag, shape=unsigned(3)):
    X = 1
    Y = 2
    Z = 4


SHAPES = {
    "u1": lambda: unsigned(1), "u2": lambda: unsigned(2), "u3": lambda: unsigned(3),
    "s2": lambda: signed(2), "s3": lambda: signed(3), "u0": lambda: unsigned(0),
    "enum2": lambda: E2, "flag3": lambda: F3,
    "struct3": lambda: adata.StructLayout({"a": 1, "b": 2}),
    "range5": lambda: range(5), "u8": lambda: unsigned(8), "s8": lambda: signed(8), "s5": lambda: signed(5),
    "u16": lambda: unsigned(16), "u33": lambda: unsigned(33), "u40": lambda: unsigned(40), "s34": lambda: signed(34),
}
WIDE_TOKENS = (0x00, 0xFF, 0x0F, 0xF0, 0x55, 0xAA, 0x80, 0x01)


def wide_tokens(w):
    """Data tokens for shapes wider than 3 bits.  Up to 8 bits: the 8 byte patterns; beyond: all-zero, all-ones, bit 0,
    the top bit, and - beyond 32 bits - bit 32, the low 32 bits and the bits above them (a machine-word boundary)."""
    mask = (1 << w) - 1
    if w <= 8:
        return sorted({t & mask for t in WIDE_TOKENS})
    toks = {0, mask, 1, 1 << (w - 1)}
    if w > 32:
        toks |= {1 << 32, 0xFFFF_FFFF, mask & ~0xFFFF_FFFF}
    else:
        toks |= {mask >> (w // 2), mask & ~(mask >> (w // 2))}
    return sorted(toks)


def shape_width(name):
    return Shape.cast(SHAPES[name]()).width


def init_obj(shape_name, init_bits):
    """The init argument a user would pass for the storage to start with these bits."""
    if shape_name == "enum2":
        return E2(init_bits)
    if shape_name == "flag3":
        return F3(init_bits)
    if shape_name == "struct3":
        return {"a": init_bits & 1, "b": init_bits >> 1}
    if shape_name.startswith("s"):
        w = shape_width(shape_name)
        return init_bits - (1 << w) if init_bits >> (w - 1) else init_bits
    return init_bits


def build_inreg(cfg):
    """The action as a field of a real csr.Register, between a reserved field below and an RW field above:
    'a field's data output always equals what a bus read of it returns' is checked on the register's
    element port (the bus-side view of the field)."""
    from amaranth_soc import csr
    from amaranth_soc.csr import action
    cls = getattr(action, cfg["action"])
    shape = SHAPES[cfg["shape"]]()
    res_cls = [action.ResRAW0, action.ResRAWL, action.ResR0WA, action.ResR0W0][(cfg["init"] + len(cfg["shape"])) % 4]
    reg = csr.Register({"lo": csr.Field(res_cls, 2),
                        "f": csr.Field(cls, shape, init=init_obj(cfg["shape"], cfg["init"])),
                        "wo": csr.Field(action.W, 2),
                        "hi": csr.Field(action.RW, 2, init=1)}, access="rw")
    m = Module()
    m.submodules.reg = reg
    el = reg.element
    inputs = [("w_stb", el.w_stb), ("w_data", el.w_data), ("r_stb", el.r_stb)]
    a = cfg["action"]
    if a == "RW1C":
        inputs.append(("set", reg.f.f.set))
    if a == "RW1S":
        inputs.append(("clear", reg.f.f.clear))
    probes = [("e_r_data", el.r_data), ("data", reg.f.f.data), ("hi_data", reg.f.hi.data)]
    return Harness(m, inputs, probes, dict(width=el.width))


class InRegObserver:
    """obs = (storage of f, storage of hi)"""
    def __init__(self, cfg, h, comp):
        self.a = cfg["action"]
        self.w = shape_width(cfg["shape"])
        self.mask = (1 << self.w) - 1
        self.init = (cfg["init"] & self.mask, 1)
        self.ii, self.pi = comp.in_index, comp.probe_index
        self.total = 2 + self.w + 2 + 2
        self.meta_err = None if h.meta["width"] == self.total else f"register width {h.meta['width']}, expected {self.total}"
        doms = []
        for name, w in zip(comp.in_names, comp.in_widths):
            if name == "w_data":
                # all values of the field's own bits x the neighbours' bits 0/1 patterns
                vals = set()
                for fv in (range(1 << self.w) if self.w <= 3 else wide_tokens(self.w)):
                    for nb in (0, (1 << self.total) - 1, 0b01 << (self.total - 2), 0b10 << (self.total - 2)):
                        vals.add((nb & ~(self.mask << 2)) | (fv << 2))
                doms.append(sorted(vals))
            elif w <= 3:
                doms.append(range(1 << w))
            else:
                doms.append(wide_tokens(w))
        self._letters = list(itertools.product(*doms))

    def letters(self, obs):
        return self._letters

    def observe(self, obs, letter, outs):
        if self.meta_err:
            return dict(msg=self.meta_err, signature=dict(kind="metadata")), obs
        s, hi = obs
        ii, pi, a, mask = self.ii, self.pi, self.a, self.mask
        w_stb, w_data = letter[ii["w_stb"]], letter[ii["w_data"]]
        exp_bus = (s << 2) | (hi << (2 + self.w + 2))
        if outs[pi["e_r_data"]] != exp_bus:
            return dict(msg=f"bus read of the register returns {outs[pi['e_r_data']]:#x}, expected {exp_bus:#x} (field storage {s:#x}, hi {hi}; reserved and write-only bits read zero)",
                        signature=dict(kind="oracle", action=a, probe="bus_read")), obs
        if outs[pi["data"]] != s or outs[pi["hi_data"]] != hi:
            return dict(msg=f"data outputs {outs[pi['data']]:#x}/{outs[pi['hi_data']]:#x} differ from what the bus read returns ({s:#x}/{hi:#x})",
                        signature=dict(kind="oracle", action=a, probe="data_vs_bus")), obs
        fw = (w_data >> 2) & mask
        if a == "RW":
            ns = fw if w_stb else s
        elif a == "RW1C":
            ns = ((s & ~(fw if w_stb else 0)) | letter[ii["set"]]) & mask
        else:
            ns = ((s & ~letter[ii["clear"]]) | (fw if w_stb else 0)) & mask
        nhi = ((w_data >> (2 + self.w + 2)) & 3) if w_stb else hi
        return None, (ns, nhi)


def build(cfg):
    from amaranth_soc.csr import action
    if cfg.get("inreg"):
        return build_inreg(cfg)
    cls = getattr(action, cfg["action"])
    shape = SHAPES[cfg["shape"]]()
    if cfg["action"] in ("RW", "RW1C", "RW1S"):
        act = cls(shape, init=init_obj(cfg["shape"], cfg["init"]))
    else:
        act = cls(shape)
    m = Module()
    m.submodules.dut = act
    inputs = [("w_stb", act.port.w_stb), ("w_data", act.port.w_data), ("r_stb", act.port.r_stb)]
    probes = [("port_r_data", act.port.r_data)]
    a = cfg["action"]
    if a == "R":
        inputs.append(("r_data", act.r_data))
        probes.append(("r_stb_out", act.r_stb))
    elif a == "W":
        probes += [("w_data_out", act.w_data), ("w_stb_out", act.w_stb)]
    elif a in ("RW", "RW1C", "RW1S"):
        probes.append(("data", act.data))
        if a == "RW1C":
            inputs.append(("set", act.set))
        if a == "RW1S":
            inputs.append(("clear", act.clear))
    return Harness(m, inputs, probes)


class Observer:
    """obs state = expected storage (int)."""
    def __init__(self, cfg, h, comp):
        self.a = cfg["action"]
        self.w = shape_width(cfg["shape"])
        self.mask = (1 << self.w) - 1
        self.init = (cfg.get("init", 0) & self.mask) if self.a in ("RW", "RW1C", "RW1S") else (None if self.a.startswith("Res") else 0)
        self.ii = comp.in_index
        self.pi = comp.probe_index
        doms = [range(1 << w) if w <= 3 else wide_tokens(w) for w in comp.in_widths]
        self._letters = list(itertools.product(*doms))

    def letters(self, obs):
        return self._letters

    def observe(self, s, letter, outs):
        ii, pi, a, mask = self.ii, self.pi, self.a, self.mask
        w_stb, w_data, r_stb = letter[ii["w_stb"]], letter[ii["w_data"]], letter[ii["r_stb"]]
        if a == "R":
            exp = {"port_r_data": letter[ii["r_data"]], "r_stb_out": r_stb}
            ns = s
        elif a == "W":
            # (what a write-only field presents on port.r_data is not constrained by the property)
            exp = {"w_data_out": w_data, "w_stb_out": w_stb}
            ns = s
        elif a.startswith("Res"):
            # "reserved fields influence nothing": whatever the field presents must not depend on any input or
            # on time; s remembers the first value seen (the value itself is not pinned by the property)
            first = outs[pi["port_r_data"]] if s is None else s
            exp = {"port_r_data": first}
            ns = first
        else:
            exp = {"port_r_data": s, "data": s}
            if a == "RW":
                ns = w_data if w_stb else s
            elif a == "RW1C":
                st = letter[ii["set"]]
                clr = w_data if w_stb else 0
                ns = ((s & ~clr) | st) & mask
            else:
                clr = letter[ii["clear"]]
                st = w_data if w_stb else 0
                ns = ((s & ~clr) | st) & mask
        for name, e in exp.items():
            got = outs[pi[name]]
            if got != e:
                return dict(msg=f"{name} is {got}, expected {e}", storage=s,
                            signature=dict(kind="oracle", action=a, probe=name)), ns
        return None, ns


def configs(tier):
    out = []
    stor = ("RW", "RW1C", "RW1S")
    shapes_stor = ["u1", "u2", "u3", "s2", "enum2", "flag3", "struct3"]
    if tier == "thorough":
        shapes_stor += ["s3", "range5", "u0"]
    for a in stor:
        for sh in shapes_stor:
            w = shape_width(sh)
            inits = range(1 << w)
            if sh == "range5":
                inits = range(5)
            for init in inits:
                out.append(dict(action=a, shape=sh, init=init))
        # wide shapes (signed and unsigned): token alphabets on data / set / clear, every storage value reachable
        for sh in ("u8", "s8") + (("s5",) if tier == "thorough" else ()):
            for init in (0, 0x5A, 0x80) if tier == "thorough" else (0x5A,):
                out.append(dict(action=a, shape=sh, init=init & ((1 << shape_width(sh)) - 1)))
    for a in stor:
        # beyond a machine word: 33 and 40 bits (34 signed), token alphabets
        for sh, init in (("u33", 1 << 32), ("u40", 0x80_0000_0001), ("u16", 0x8001)) + ((("s34", 1 << 33),) if tier == "thorough" else ()):
            out.append(dict(action=a, shape=sh, init=init))
        out.append(dict(action=a, shape="s2", init=1, elab_twice=True))
        # the same actions as fields of a real register (bus-side view), signed and unsigned, negative inits
        for sh, init in (("u2", 1), ("s2", 2), ("s3", 5), ("enum2", 3), ("u3", 0)) + ((("s8", 0x80), ("u8", 0x5A)) if tier == "thorough" else (("s5", 0x11),)):
            out.append(dict(action=a, shape=sh, init=init, inreg=True))
        out.append(dict(action=a, shape="s3", init=5, inreg=True, elab_twice=True))   # the register elaborated twice
    for a in ("R", "W", "ResRAW0", "ResRAWL", "ResR0WA", "ResR0W0"):
        for sh in ["u1", "u3", "s2", "enum2", "u0"] + (["flag3", "struct3"] if tier == "thorough" else []):
            out.append(dict(action=a, shape=sh))
    return out


def run_config(cfg, tier, seed):
    return explore_hw(build, InRegObserver if cfg.get("inreg") else Observer, cfg, tier, seed)


def replay(data):
    from ..hw import rederive
    cfg = data["cfg"]
    err, cyc = rederive(build, InRegObserver if cfg.get("inreg") else Observer, cfg, data["trace"], None)
    return err, cyc


def main(tier, seed):
    t0 = time.time()
    cfgs = configs(tier)
    results = run_configs(run_config, cfgs, tier, seed)
    cov = aggregate(results)
    cov["rule"] = ("every field action class x shape x init value; full BFS over storage with every "
                   "(w_stb, w_data, r_stb, set/clear/r_data) letter each cycle")
    cov["letters"] = "full product of all input values"
    return finish(PID, tier, seed, "model_checking", cov, ASSUMPTIONS, t0, results, min_explored=int(0.9 * len(results)))


ASSUMPTIONS = [
    "Amaranth 0.5.10 front end, build_netlist and Simulator are the trusted base",
    "rst held at 0", "storage timing as documented by the actions (updated one clock cycle after the strobe / set / clear input)",
    "shapes up to 3 bits wide: all values of all ports enumerated; 5- and 8-bit shapes: 8 data tokens per port (0x00 0xFF 0x0F 0xF0 0x55 0xAA 0x80 0x01)",
]
