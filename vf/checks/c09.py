"""C09 - Wishbone arbiter is round-robin fair: no requester can be starved.

Same graphs as C08 (real netlist, owner inferred from behaviour), control letters.  Decided on the
COMPLETE state graph:
 (a) exact next-owner function on every edge;
 (b) no starving cycle: for each initiator i, in the sub-graph of edges on which i requests and
     neither end is owned by i, no strongly connected component contains an edge on which the bus
     is released (such an SCC is a lasso: i requests forever, the bus is released infinitely often,
     i is never served);
 (c) bound: along any path of that sub-graph ownership changes at most N-1 times.
(b) and (c) are graph algorithms (Tarjan SCC, longest weighted path on the condensation) - a
liveness verdict over all infinite schedules, not a bounded-trace approximation.
"""
import time

from ..hw import explore_hw, aggregate, rederive
from ..common import run_configs, finish
from .arbcommon import build, ArbModel, configs as arb_configs, phases_for

PID = "C09"


class Observer(ArbModel):
    def __init__(self, cfg, h, comp):
        super().__init__(cfg, h, comp)
        self.init = 0
        ctl = self.ctl_vectors()
        resp = self.resp_vectors()
        rej = (0, 1) if self.rejected else (0,)
        # The next-owner function is explored over control inputs; if the netlist shows that anything else
        # (address, data, select, we, cti, bte, read data) can reach the state through the response path,
        # those inputs are enumerated over all token phases as well.
        state_cone = set(comp.support_of([f"i{k}_ack" for k in range(self.n)]))
        data_in = [n for n in state_cone if n.split("_", 1)[-1] in ("adr", "dat_w", "sel", "we", "cti", "bte", "dat_r")]
        phases = (2,) if not data_in else tuple(range(phases_for(self.n)))
        self.data_inputs_in_state_cone = data_in
        self._letters = [self.letter(c, p, r, j) for c in ctl for p in phases for r in resp for j in rej]
        self.edges = set()      # (hw, hw2, request mask, released)

    def letters(self, obs):
        return self._letters

    def probe_letters(self):
        ctl = tuple((1, 1, 1 if "lock" in self.ifeat[k] else 0) for k in range(self.n))
        return [self.letter(ctl, p, (0, 0, 0, 0), j) for p in range(2, phases_for(self.n)) for j in ((0, 1) if self.rejected else (0,))]

    def observe(self, obs, letter, outs, hw, hw2):
        ii = self.ii
        owner = self.owner_of(hw)
        o2 = self.owner_of(hw2)
        if owner is None or o2 is None:
            return dict(msg="no unique initiator owns the shared bus in this state",
                        signature=dict(kind="oracle", what="owner")), 0
        req = [letter[ii[f"i{k}_cyc"]] for k in range(self.n)]
        released = not self.in_progress(owner, letter)
        if not released:
            exp = owner
        else:
            exp = owner
            for d in range(1, self.n):
                k = (owner + d) % self.n
                if req[k]:
                    exp = k
                    break
        if o2 != exp:
            return dict(msg=f"owner {owner}, requests {req}, released={released}: next owner is {o2}, expected {exp}",
                        signature=dict(kind="oracle", what="next_owner")), 0
        mask = sum(b << k for k, b in enumerate(req))
        self.edges.add((hw, hw2, mask, released))
        return None, 0


def sccs(nodes, adj):
    """Iterative Tarjan. adj: node -> list of successors."""
    index, low, on, stack, out = {}, {}, set(), [], []
    c = 0
    for root in nodes:
        if root in index:
            continue
        work = [(root, 0)]
        while work:
            v, i = work.pop()
            if i == 0:
                index[v] = low[v] = c; c += 1
                stack.append(v); on.add(v)
            rec = False
            succ = adj.get(v, [])
            while i < len(succ):
                w = succ[i]; i += 1
                if w not in index:
                    work.append((v, i)); work.append((w, 0)); rec = True
                    break
                if w in on:
                    low[v] = min(low[v], index[w])
            if rec:
                continue
            if low[v] == index[v]:
                comp = []
                while True:
                    w = stack.pop(); on.discard(w); comp.append(w)
                    if w == v:
                        break
                out.append(comp)
            if work:
                p = work[-1][0]
                low[p] = min(low[p], low[v])
    return out


def liveness(cfg, h, comp, ob, r):
    n = ob.n
    owner = ob.owner_of
    for i in range(n):
        sub = [(a, b, rel) for (a, b, mask, rel) in ob.edges
               if (mask >> i) & 1 and owner(a) != i and owner(b) != i]
        nodes = sorted({a for a, _, _ in sub} | {b for _, b, _ in sub}, key=repr)
        adj = {}
        for a, b, rel in sub:
            adj.setdefault(a, []).append(b)
        comps = sccs(nodes, adj)
        cid = {}
        for k, c in enumerate(comps):
            for v in c:
                cid[v] = k
        for a, b, rel in sub:
            if cid[a] == cid[b] and rel:
                return dict(kind="liveness", err=dict(
                    msg=f"initiator {i} can be starved: a cycle of states (owners {sorted({owner(v) for v in comps[cid[a]]})}) "
                        f"on which it requests continuously, the bus is released, and it is never granted"),
                    signature=dict(kind="liveness", what="starving_cycle"))
        # (c) longest path counted in ownership changes; comps come out in reverse topological order
        best = {k: 0 for k in range(len(comps))}
        for k, c in enumerate(comps):           # successors of comps[k] have smaller index
            m = 0
            for a, b, rel in sub:
                if cid[a] == k and cid[b] != k:
                    w = 1 if owner(a) != owner(b) else 0
                    m = max(m, w + best[cid[b]])
                if cid[a] == k and cid[b] == k and owner(a) != owner(b):
                    return dict(kind="liveness", err=dict(msg=f"ownership can change unboundedly often among others while initiator {i} requests"),
                                signature=dict(kind="liveness", what="unbounded"))
            best[k] = m
        if best and max(best.values()) > max(0, n - 1):
            return dict(kind="liveness", err=dict(msg=f"initiator {i} may wait for {max(best.values())} other grants (> N-1 = {n - 1})"),
                        signature=dict(kind="liveness", what="bound"))
    return None


def configs(tier):
    return arb_configs(tier)


def run_config(cfg, tier, seed):
    res = explore_hw(build, Observer, cfg, tier, seed, pass_hw=True, post=liveness)
    return res


def replay(data):
    if data.get("kind") == "liveness":
        res = run_config(data["cfg"], "quick", 0)
        v = res.get("violation")
        return (v["err"], "graph") if v else (None, None)
    return rederive(build, Observer, data["cfg"], data["trace"], None, pass_hw=True)


def main(tier, seed):
    t0 = time.time()
    results = run_configs(run_config, configs(tier), tier, seed)
    cov = aggregate(results)
    cov["rule"] = ("1-4 initiators x feature subsets/policies, 5-6 (thorough: 5-8) initiators, second elaboration, refused add() in the middle; complete state graph with every (cyc,stb,lock) per initiator "
                   "x every target response; exact next-owner on every edge + SCC/longest-path liveness analysis")
    return finish(PID, tier, seed, "model_checking", cov, ASSUMPTIONS, t0, results, min_explored=int(0.9 * len(results)))


ASSUMPTIONS = [
    "Amaranth 0.5.10 front end, build_netlist and Simulator are the trusted base", "rst held at 0",
    "N <= 6 (thorough: 8) initiators", "data/address inputs held at one token phase (the next-owner function's structural support is control only)",
]
