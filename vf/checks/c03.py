"""C03 - resource lookup through windows is coherent in every direction.

Exhaustive enumeration of a bounded grammar of memory-map trees (depth <= 3; ratio-1 and sparse windows
at any level, dense windows of ratio 2/4/8 over leaf maps whose alignment admits them; named and
anonymous; windows not starting at 0; a pure-bridge level holding only windows).  For every tree:
all_resources(), find_resource() for every resource object (and one that was never added) and
decode_address() for EVERY address of the root are compared with plain address arithmetic.
This is a finite grid of configurations x inputs, not a state graph: claimed as exhaustive exploration.
"""
import itertools
import time

from ..common import run_configs, finish

PID = "C03"

_POOL = []
_POOL_EQ = []
_NEXT = [0]
_MODE = dict(eqres=False, refusals=False)


class NotComparable(Exception):
    pass


def res():
    if not _POOL:
        from amaranth.lib import wiring

        class Res(wiring.Component):
            def __init__(self):
                super().__init__({})

        class ResEq(wiring.Component):
            """A user component with VALUE equality: any two instances are equal and hash alike.  A memory map
            identifies resources by object identity, so two such peripherals are two resources."""
            def __init__(self):
                super().__init__({})

            def __eq__(self, other):
                return isinstance(other, ResEq)

            def __hash__(self):
                return 7
        _POOL.extend(Res() for _ in range(64))
        _POOL_EQ.extend(ResEq() for _ in range(64))
    pool = _POOL_EQ if _MODE["eqres"] else _POOL
    r = pool[_NEXT[0] % len(pool)]
    _NEXT[0] += 1
    return r


def refused_calls(mm, spec, taken):
    """Calls the map must refuse (a name that is taken), made between the accepted ones: they must leave no trace in
    any of the three lookups.  (Whether they ARE refused is C18's subject: if one is accepted the tree is dropped.)"""
    from amaranth_soc.memory import MemoryMap
    if not _MODE["refusals"] or not taken:
        return
    name = taken[-1]
    try:
        mm.add_resource(res(), name=name, size=1)
        raise NotComparable("a taken name was accepted")
    except ValueError:
        pass
    child = MemoryMap(addr_width=1, data_width=spec["dw"])
    child.add_resource(res(), name=("ghost",), size=1)
    try:
        mm.add_window(child, name=name)
        raise NotComparable("a taken name was accepted")
    except ValueError:
        pass
    query(mm)


class QueryFailed(Exception):
    pass


_STRANGER = [object()]


def query(mm):
    try:
        list(mm.all_resources()); list(mm.window_patterns()); list(mm.resources()); list(mm.windows())
        mm.decode_address(0)
        try:
            mm.find_resource(_STRANGER[0])
            raise QueryFailed("find_resource() of an object that was never added did not raise KeyError")
        except KeyError:
            pass
    except QueryFailed:
        raise
    except Exception as e:
        raise QueryFailed(f"{type(e).__name__}: {e}")


def build(spec, counter, expected, prefix_fn):
    """Builds the real map for ``spec``; appends (resource, local start, local end) through
    ``prefix_fn`` which maps a local record of THIS map to the root's view."""
    from amaranth_soc.memory import MemoryMap
    mm = MemoryMap(addr_width=spec["aw"], data_width=spec["dw"], alignment=spec.get("al", 0))
    taken = []
    for item in spec["items"]:
        refused_calls(mm, spec, taken)
        if item[0] == "res":
            _, size, addr = item
            r = res()
            name = (f"r{counter[0]}",)
            counter[0] += 1
            s, e = mm.add_resource(r, name=name, size=size, addr=addr)
            taken.append(name)
            query(mm)
            expected.append(prefix_fn(dict(resource=r, start=s, end=e, width=spec["dw"], path=(name,))))
        else:
            _, child_spec, kind, name, addr = item
            sub_expected = []
            child = build(child_spec, counter, sub_expected, lambda rec: rec)
            sparse = {"same": None, "sparse": True, "dense": False}[kind]
            b, stop, ratio = mm.add_window(child, name=name, addr=addr, sparse=sparse)
            if name is not None:
                taken.append((name,) if isinstance(name, str) else tuple(name))
            query(mm)                                                  # queries between the mutations
            for rec in sub_expected:
                # the sentence of the property: [b + s/r, b + e/r), width x r, window name prefixed
                assert rec["start"] % ratio == 0 and rec["end"] % ratio == 0
                path = rec["path"] if name is None else (((name,),) if isinstance(name, str) else (tuple(name),)) + rec["path"]
                expected.append(prefix_fn(dict(resource=rec["resource"], start=b + rec["start"] // ratio,
                                               end=b + rec["end"] // ratio, width=rec["width"] * ratio, path=path)))
    refused_calls(mm, spec, taken)
    return mm


def norm_path(path):
    return tuple(tuple(p) for p in path)


def check_tree(spec, tier, seed):
    _NEXT[0] = 0
    _MODE["eqres"], _MODE["refusals"] = bool(spec.get("eqres")), bool(spec.get("refusals"))
    expected = []
    try:
        root = build(spec, [0], expected, lambda rec: rec)
    except NotComparable as e:
        return dict(refused=True, msg=str(e))
    except QueryFailed as e:
        return dict(violation=dict(kind="tree", err=dict(msg=f"a query between two additions failed: {e}"),
                                   signature=dict(kind="oracle", what="internal_error")), evaluations=0)
    except ValueError as e:
        return dict(refused=True, msg=str(e)[:100])
    except Exception as e:
        # building the tree only makes legitimate API calls (adds and queries)
        return dict(violation=dict(kind="tree", err=dict(msg=f"while building the tree: {type(e).__name__}: {e}"),
                                   signature=dict(kind="oracle", what="internal_error")), evaluations=0)
    stranger = res()
    evals = 0
    expected.sort(key=lambda r: r["start"])

    def viol(msg, what):
        return dict(violation=dict(kind="tree", err=dict(msg=msg), signature=dict(kind="oracle", what=what)), evaluations=evals)

    try:
        got = list(root.all_resources())
    except Exception as e:
        return viol(f"all_resources(): {type(e).__name__}: {e}", "internal_error")
    rec = [(id(i.resource), i.start, i.end, i.width, norm_path(i.path)) for i in got]
    exp = [(id(r["resource"]), r["start"], r["end"], r["width"], norm_path(r["path"])) for r in expected]
    evals += 1
    if rec != exp:
        return viol(f"all_resources() = {[x[1:] for x in rec]}, arithmetic says {[x[1:] for x in exp]}", "all_resources")
    for r in expected:
        evals += 1
        try:
            i = root.find_resource(r["resource"])
        except Exception as e:
            return viol(f"find_resource() of a resource at {r['start']}..{r['end']}: {type(e).__name__}", "find_resource")
        if (i.start, i.end, i.width, norm_path(i.path)) != (r["start"], r["end"], r["width"], norm_path(r["path"])) or i.resource is not r["resource"]:
            return viol(f"find_resource() = {(i.start, i.end, i.width, i.path)}, expected {(r['start'], r['end'], r['width'], r['path'])}", "find_resource")
    evals += 1
    try:
        root.find_resource(stranger)
        return viol("find_resource() of an object that was never added did not raise KeyError", "find_stranger")
    except KeyError:
        pass
    except Exception as e:
        return viol(f"find_resource() of a stranger: {type(e).__name__}", "find_stranger")
    if spec.get("huge"):
        # address spaces far beyond enumeration: every boundary of every reported range, its neighbours, and the ends
        probe = {0, (1 << spec["aw"]) - 1}
        for r in expected:
            probe |= {r["start"] - 1, r["start"], r["start"] + 1, r["end"] - 1, r["end"], (r["start"] + r["end"]) // 2}
        addresses = sorted(a for a in probe if 0 <= a < (1 << spec["aw"]))
    else:
        addresses = range(1 << spec["aw"])
    for a in addresses:
        evals += 1
        want = None
        for r in expected:
            if r["start"] <= a < r["end"]:
                want = r["resource"]
        try:
            g = root.decode_address(a)
        except Exception as e:
            return viol(f"decode_address({a}): {type(e).__name__}: {e}", "decode_address")
        if g is not want:
            return viol(f"decode_address({a}) = {'a resource' if g is not None else None}, expected "
                        f"{'the resource at ' + str([(r['start'], r['end']) for r in expected if r['resource'] is want]) if want is not None else None}",
                        "decode_address")
    return dict(evaluations=evals, resources=len(expected), nontrivial=len(expected) >= 2 and any(it[0] == "win" for it in spec["items"]),
                sample=dict(spec=spec, all_resources=[dict(start=r["start"], end=r["end"], width=r["width"], path=[list(map(str, p)) for p in r["path"]]) for r in expected]))


def leafs(dw, aw, al):
    """a few leaf contents: resources at non-zero / unaligned local addresses, reaching the top"""
    top = 1 << aw
    unit = 1 << al
    out = [
        [("res", 1, None)],
        [("res", 1, None), ("res", 2, None)],
        [("res", 3, unit if unit < top else 0)],
        [("res", 1, top - unit)],                                   # reaches the top of the window
        [("res", 2, None), ("res", 1, top - unit)] if top - unit >= 2 * max(unit, 1) + 0 and top > 2 * unit else [("res", 1, 0)],
    ]
    return [dict(aw=aw, dw=dw, al=al, items=items) for items in out]


def configs(tier):
    quick = tier == "quick"
    out = []
    names = [None, "w", ("w", 0)]
    for root_dw in (8, 32, 64) if quick else (8, 16, 32, 64):
        for root_aw in (5, 6) if quick else (4, 5, 6):
            lead = [[], [("res", 1, None)], [("res", 3, None)]]
            # ---- level-2 windows directly under the root ----------------------------------------------
            kinds = [("same", root_dw, 0)]
            for sd in (8, 16, 32):
                if sd < root_dw:
                    kinds.append(("sparse", sd, 0))
                    ratio = root_dw // sd
                    if ratio in (2, 4, 8):
                        kinds.append(("dense", sd, ratio.bit_length() - 1))
            for (kind, cdw, cal), nm, ld in itertools.product(kinds, names, lead):
                for caw in ((2, 3) if quick else (1, 2, 3)) + ((4,) if (kind == "dense" and root_dw // cdw == 8) else ()):
                    for leaf in leafs(cdw, caw, cal):
                        for root_al in (0,) if quick else (0, 1, 2):
                            items = list(ld) + [("win", leaf, kind, nm, None), ("res", 1, None)]
                            out.append(dict(aw=root_aw + (1 if root_al else 0), dw=root_dw, al=root_al, items=items))
                            if not quick:
                                # two sibling windows of the same kind, the second at an explicit (aligned) address
                                span = max((1 << caw) // (root_dw // cdw if kind == "dense" else 1), 1 << root_al)
                                items2 = list(ld) + [("win", leaf, kind, nm, None),
                                                     ("win", dict(leaf), kind, "sib", 4 * span), ("res", 1, None)]
                                out.append(dict(aw=root_aw + 1, dw=root_dw, al=root_al, items=items2))
            # ---- three levels: root -> middle (ratio-1 / sparse; possibly holding ONLY windows) -> leaf ----
            for mid_kind, mid_dw in [("same", root_dw)] + [("sparse", sd) for sd in (8, 16) if sd < root_dw]:
                inner = [("same", mid_dw, 0)]
                for sd in (8, 16):
                    if sd < mid_dw:
                        inner.append(("sparse", sd, 0))
                        ratio = mid_dw // sd
                        if ratio in (2, 4, 8):
                            inner.append(("dense", sd, ratio.bit_length() - 1))
                for (ik, idw, ial), nm_mid, nm_in in itertools.product(inner, names[:2], names[:2]):
                    for pure in (True, False):
                        for leaf in leafs(idw, 2, ial)[:(3 if quick else 5)]:
                            mid_items = ([] if pure else [("res", 1, None)]) + [("win", leaf, ik, nm_in, None)]
                            if not pure:
                                mid_items.append(("win", leafs(mid_dw, 1, 0)[0], "same", "z", None))
                            mid = dict(aw=4, dw=mid_dw, al=0, items=mid_items)
                            items = [("res", 2, None), ("win", mid, mid_kind, nm_mid, None), ("res", 1, None)]
                            out.append(dict(aw=max(root_aw, 6) if root_aw < 6 else 6, dw=root_dw, al=0, items=items))
            # ---- four levels: root -> m1 -> m2 -> leaf, and two sibling windows inside m1 ------------------
            if not quick or root_dw == 32:
                for k1, d1 in [("same", root_dw)] + [("sparse", sd) for sd in (16,) if sd < root_dw]:
                    for k2, d2 in [("same", d1)] + [("sparse", sd) for sd in (8,) if sd < d1]:
                        inner = [("same", d2, 0)] + ([("dense", 8, (d2 // 8).bit_length() - 1)] if d2 // 8 in (2, 4, 8) else [])
                        for (ik, idw, ial), n1, n2 in itertools.product(inner, names[:2], (None, ("x", 1))):
                            leaf = leafs(idw, 2, ial)[1 if ial == 0 else 3]
                            m2 = dict(aw=3, dw=d2, al=0, items=[("res", 1, None), ("win", leaf, ik, n2, None)])
                            sib = leafs(d1, 1, 0)[0]
                            m1 = dict(aw=5, dw=d1, al=0, items=[("win", sib, "same", "sib", None), ("win", m2, k2, n1, None), ("res", 2, None)])
                            out.append(dict(aw=7, dw=root_dw, al=0, items=[("res", 3, None), ("win", m1, k1, "top", None), ("res", 1, None)]))
            # ---- explicit window addresses (multiples of the window size), two windows, reversed order ----
            l1, l2 = leafs(root_dw, 2, 0)[1], leafs(root_dw, 1, 0)[0]
            out.append(dict(aw=root_aw, dw=root_dw, al=0, items=[("win", l1, "same", "a", 8), ("win", l2, "same", None, 2), ("res", 1, 0)]))
            out.append(dict(aw=root_aw, dw=root_dw, al=1, items=[("res", 1, None), ("win", l1, "same", None, None), ("win", l2, "same", "b", None)]))
    # de-duplicate
    seen, keep = set(), []
    for c in out:
        k = repr(c)
        if k not in seen:
            seen.add(k); keep.append(c)
    # address spaces beyond 2**53 (where floats stop being exact): resources at odd addresses high up in a window
    big = 1 << 54
    for kind, rdw, cdw, cal, caw in (("sparse", 64, 8, 0, 55), ("same", 8, 8, 0, 55), ("dense", 64, 32, 1, 56), ("sparse", 32, 16, 0, 57)):
        leaf = dict(aw=caw, dw=cdw, al=cal, items=[("res", 3, None), ("res", 5 if kind != "dense" else 6, big + (9 if kind != "dense" else 10)),
                                                   ("res", 1, (1 << caw) - (1 << cal))])
        keep.append(dict(aw=60, dw=rdw, al=0, huge=True, items=[("res", 1, None), ("win", leaf, kind, "w", None), ("res", 2, None)]))
        mid = dict(aw=58, dw=rdw, al=0, items=[("win", leaf, kind, None, None), ("res", 1, None)])
        keep.append(dict(aw=60, dw=rdw, al=0, huge=True, items=[("win", mid, "same", "m", None)]))
    # the same trees with refused calls between the accepted ones, and with resources that have value equality
    step = 5 if quick else 2
    keep += [dict(c, refusals=True) for c in keep[::step]] + [dict(c, eqres=True) for c in keep[1::step]]
    return keep


def replay(data):
    r = check_tree(data["cfg"], "quick", 0)
    v = r.get("violation")
    return (v["err"], "tree") if v else (None, None)


def main(tier, seed):
    t0 = time.time()
    cfgs = configs(tier)
    results = run_configs(check_tree, cfgs, tier, seed)
    evals = sum(r.get("evaluations", 0) for r in results)
    nontrivial = sum(1 for r in results if r.get("nontrivial"))
    samples = [r["sample"] for r in results if r.get("sample") and r.get("nontrivial")][:3]
    cov = dict(evaluations=evals, distinct_nontrivial=nontrivial, configs=len(cfgs),
               configs_refused=sum(1 for r in results if r.get("refused")),
               rule=("every tree of the grammar (distinct by construction) x (all_resources, find_resource per resource + a stranger, "
                     "decode_address for every root address); a tree is non-trivial when it has >= 2 resources and at least one window"),
               samples=samples or [dict(note="no sample")], exhaustive=True)
    return finish(PID, tier, seed, "exploration", cov, ASSUMPTIONS, t0, results, min_explored=int(0.6 * len(results)))


ASSUMPTIONS = [
    "tree grammar: depth <= 3, root 4-6 address bits, data widths 8-64; dense windows only over leaf maps (as the property says)",
    "local ranges are those returned by add_resource/add_window (their correctness is C02's subject)",
]
