"""C13 - event monitor never loses an event and reports exactly enabled-and-pending.

Hardware: full BFS over (pending, previous-input latches) of event.Monitor with every
(source inputs, enable, clear) letter each cycle, for 0-3 (thorough: 4) sources and every trigger
assignment.  EventMap: BFS over call histories to fixpoint against a list model.
"""
import itertools
import time

from amaranth import Module

from ..netlist import Harness
from ..hw import explore_hw, aggregate, rederive
from ..history import hbfs
from ..common import run_configs, finish, is_refusal, describe_exc

PID = "C13"
MODES = ("level", "rise", "fall")


def build(cfg):
    from amaranth_soc import event
    modes = cfg["modes"]
    n = len(modes)
    # (same_path: every source carries the same path, hence the same signal names - names must not matter)
    srcs = [event.Source(trigger=t, path=(("s",) if cfg.get("same_path") else (f"s{k}",))) for k, t in enumerate(modes)]
    emap = event.EventMap()
    order = cfg.get("order") or list(range(n))
    for k in order:
        emap.add(srcs[k])
        list(emap.sources()); emap.size       # queries between the adds must not freeze a stale view
        if cfg.get("repeat"):
            emap.add(srcs[order[0]])          # repeats must not renumber anything
    mon = event.Monitor(emap, trigger=cfg.get("trigger", "level"))
    m = Module()
    m.submodules.mon = mon
    inputs = [(f"i{k}", s.i) for k, s in enumerate(srcs)] + [("enable", mon.enable), ("clear", mon.clear)]
    probes = [(f"trg{k}", s.trg) for k, s in enumerate(srcs)] + [("pending", mon.pending), ("src_i", mon.src.i)]
    meta = dict(index=[emap.index(s) for s in srcs], size=emap.size,
                widths=[len(mon.enable), len(mon.pending), len(mon.clear)])
    return Harness(m, inputs, probes, meta)


class Observer:
    """obs = (pending, prev) ; prev only keeps bits of edge-triggered sources."""
    def __init__(self, cfg, h, comp):
        self.modes = cfg["modes"]
        self.n = n = len(self.modes)
        self.index = h.meta["index"]
        self.ii = [comp.in_index[f"i{k}"] for k in range(n)]
        self.ien, self.iclr = comp.in_index["enable"], comp.in_index["clear"]
        self.ptrg = [comp.probe_index[f"trg{k}"] for k in range(n)]
        self.ppend, self.psrc = comp.probe_index["pending"], comp.probe_index["src_i"]
        self.init = (0, 0)
        if cfg.get("wide"):
            # many sources: source vector, enable and clear mask each from {0, all ones, every single bit}
            vecs = [0, (1 << n) - 1] + [1 << k for k in range(n)]
            self._letters = []
            for sv, en, cl in itertools.product(vecs, repeat=3):
                d = {f"i{k}": (sv >> k) & 1 for k in range(n)}
                d.update(enable=en, clear=cl)
                self._letters.append(tuple(d[nme] for nme in comp.in_names))
        else:
            doms = [range(1 << w) for w in comp.in_widths]
            self._letters = list(itertools.product(*doms))
        self.bad_map = None
        if h.meta["widths"] != [n, n, n]:
            self.bad_map = f"enable/pending/clear are {h.meta['widths']} bits wide for {n} sources"
        elif sorted(self.index) != list(range(n)) or h.meta["size"] != n:
            self.bad_map = f"event map numbers {n} sources as {self.index} (size {h.meta['size']})"
        order = cfg.get("order") or list(range(n))
        exp_index = [order.index(k) for k in range(n)]
        if self.bad_map is None and self.index != exp_index:
            self.bad_map = f"indices {self.index} are not in order of first addition {exp_index}"

    def letters(self, obs):
        return self._letters

    def observe(self, obs, letter, outs):
        pending, prev = obs
        if self.bad_map:
            return dict(msg=self.bad_map, signature=dict(kind="event_map_numbering")), obs
        enable, clear = letter[self.ien], letter[self.iclr]
        trg_mask = 0
        nprev = 0
        for k, mode in enumerate(self.modes):
            i = letter[self.ii[k]]
            p = (prev >> k) & 1
            if mode == "level":
                t = i
            elif mode == "rise":
                t = i & (1 - p)
                nprev |= i << k
            else:
                t = (1 - i) & p
                nprev |= i << k
            if outs[self.ptrg[k]] != t:
                return dict(msg=f"source {k} ({mode}) trg={outs[self.ptrg[k]]} expected {t}",
                            signature=dict(kind="oracle", what="trg", mode=mode)), obs
            trg_mask |= t << self.index[k]
        if outs[self.ppend] != pending:
            return dict(msg=f"pending={outs[self.ppend]:#b} expected {pending:#b}",
                        signature=dict(kind="oracle", what="pending")), obs
        exp_i = 1 if (enable & pending) else 0
        if outs[self.psrc] != exp_i:
            return dict(msg=f"src.i={outs[self.psrc]} expected {exp_i} (enable={enable:#b} pending={pending:#b})",
                        signature=dict(kind="oracle", what="src_i")), obs
        npending = (pending & ~clear) | trg_mask
        return None, (npending, nprev)


def configs(tier):
    out = [dict(modes=())]
    for n in (1, 2, 3):
        for modes in itertools.product(MODES, repeat=n):
            out.append(dict(modes=modes))
    # insertion order differs from harness order; repeats interleaved; monitor's own trigger mode
    out.append(dict(modes=("rise", "level", "fall"), order=[2, 0, 1]))
    out.append(dict(modes=("rise", "fall"), order=[1, 0], repeat=True, trigger="rise"))
    out.append(dict(modes=("level", "fall", "rise"), order=[1, 2, 0], repeat=True, trigger="fall"))
    out.append(dict(modes=("rise", "level"), elab_twice=True))
    out.append(dict(modes=("rise", "rise"), same_path=True))
    out.append(dict(modes=("fall", "rise", "fall"), same_path=True))
    # five and more sources (token alphabets): counts that are not multiples of four / powers of two
    for n in (5, 6) + ((7, 9) if tier == "thorough" else ()):
        out.append(dict(modes=("level",) * (n - 1) + ("rise",), wide=True))
    out.append(dict(modes=("fall",) + ("level",) * 4, wide=True, order=[4, 3, 2, 1, 0]))
    out.append(dict(modes=("fall", "rise", "level"), order=[1, 2, 0], elab_twice=True))
    if tier == "thorough":
        for modes in itertools.product(MODES, repeat=4):
            out.append(dict(modes=modes, order=[3, 1, 0, 2]))
    return out


def run_config(cfg, tier, seed):
    return explore_hw(build, Observer, cfg, tier, seed)


# ---- EventMap histories (Engine H) ----------------------------------------------------------------

H_LETTERS = ["add0", "add1", "add2", "add_bad", "freeze", "use_monitor", "use_source",
             "index_stranger", "index_bad"]


def h_execute(history, parent_key=None):
    from amaranth_soc import event
    srcs = [event.Source(path=(f"s{k}",)) for k in range(3)]
    stranger = event.Source(path=("x",))
    emap = event.EventMap()
    ref, frozen = [], False      # the boring model: a list and a flag
    err = None
    for pos, letter in enumerate(history):
        last = pos == len(history) - 1
        raised = None
        try:
            if letter.startswith("add") and letter != "add_bad":
                emap.add(srcs[int(letter[3])])
            elif letter == "add_bad":
                emap.add("not a source")
            elif letter == "freeze":
                emap.freeze()
            elif letter == "use_monitor":
                event.Monitor(emap)
            elif letter == "use_source":
                event.Source().event_map = emap
            elif letter == "index_stranger":
                emap.index(stranger)
            elif letter == "index_bad":
                emap.index(3)
        except Exception as e:
            raised = e
        try:
            list(emap.sources()); emap.size       # queries between the calls (results discarded)
        except Exception:
            pass
        # reference
        if letter.startswith("add") and letter != "add_bad":
            k = int(letter[3])
            if frozen:
                exp = "refuse"
            else:
                exp = "ok"
                if k not in ref:
                    ref.append(k)
        elif letter == "add_bad":
            exp = "refuse"
        elif letter in ("freeze", "use_monitor", "use_source"):
            exp = "ok"; frozen = True
        elif letter == "index_stranger":
            exp = "keyerror"
        else:
            exp = "refuse"
        if last:
            if exp == "ok" and raised is not None:
                err = dict(msg=f"{letter} raised {type(raised).__name__}: {raised}", signature=dict(kind="eventmap", letter=letter))
            elif exp in ("refuse", "keyerror") and raised is None and not letter.startswith("add_bad") and not letter.startswith("index"):
                # adding a source to a frozen map must raise (which exception class is not the property's business)
                err = dict(msg=f"{letter} on a frozen map was accepted", signature=dict(kind="eventmap", letter=letter))
            # (invalid arguments - a non-source, a stranger - are not in the property's quantifier: whatever the
            #  library answers, the numbering checked below must stay intact)
    # observation through public queries only
    got = [(srcs.index(s) if s in srcs else -1, i) for s, i in emap.sources()]
    idx = []
    for k in range(3):
        try:
            idx.append(emap.index(srcs[k]))
        except KeyError:
            idx.append(None)
    # is the map closed?  observed on the real object with a throw-away source (this object is discarded)
    size_before = emap.size
    try:
        emap.add(event.Source(path=("probe",)))
        closed = False
    except Exception:
        closed = True
    canon = (tuple(got), size_before, tuple(idx), closed)
    if err is None and closed != frozen:
        err = dict(msg=f"after {list(history)} the map {'still accepts' if frozen else 'refuses'} a new source, "
                       f"expected {'frozen' if frozen else 'open'} (freeze / use in a Monitor / assignment to Source.event_map freeze it)",
                   signature=dict(kind="eventmap", what="frozen"))
    if err is None:
        exp_sources = [(k, i) for i, k in enumerate(ref)]
        exp_idx = [ref.index(k) if k in ref else None for k in range(3)]
        if got != exp_sources or size_before != len(ref) or idx != exp_idx:
            err = dict(msg=f"sources()={got} size={size_before} index={idx}; expected {exp_sources} / {len(ref)} / {exp_idx}",
                       signature=dict(kind="eventmap", what="numbering"))
    return canon, err


def replay(data):
    if "history" in data:
        _, err = h_execute(tuple(data["history"]))
        return err, len(data["history"])
    return rederive(build, Observer, data["cfg"], data["trace"], None)


def main(tier, seed):
    t0 = time.time()
    results = run_configs(run_config, configs(tier), tier, seed)
    cov = aggregate(results)
    hr = hbfs(H_LETTERS, h_execute, max_depth=12)
    extra = []
    if hr.violation:
        extra.append(dict(kind="history", err=hr.violation["err"], history=hr.violation["history"],
                          signature=hr.violation["err"].get("signature", {})))
    cov["eventmap_history_states"] = hr.states
    cov["eventmap_history_transitions"] = hr.transitions
    cov["eventmap_history_closed"] = hr.capped is None
    cov["eventmap_history_depth"] = hr.max_depth
    cov["states"] += hr.states
    cov["transitions"] += hr.transitions
    cov["traces_validated_against_impl"] += hr.transitions   # every history transition is a real call
    cov["samples"].append(dict(eventmap_history=hr.samples))
    cov["exhaustive"] = cov["exhaustive"] and hr.capped is None
    cov["rule"] = ("hardware: all trigger-mode assignments for 0-3 sources (thorough: 4), full BFS, every "
                   "(inputs, enable, clear) letter; EventMap: call histories to fixpoint")
    return finish(PID, tier, seed, "model_checking", cov, ASSUMPTIONS, t0, results, extra, min_explored=int(0.9 * len(results)))


ASSUMPTIONS = [
    "Amaranth 0.5.10 front end, build_netlist and Simulator are the trusted base",
    "rst held at 0", "at most 3 (quick) / 4 (thorough) sources",
]
