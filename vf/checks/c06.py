"""C06 - CSR decoder routes each access to exactly one subordinate, transparently.

Part 1 (routing): trees of real csr.Decoders over stub subordinate buses; the decoder is
combinational, so the single state is enumerated under EVERY (addr, r_stb, w_stb, w_data) and every
"one subordinate returns data, the others are idle (zero)" read-data letter.  Oracle: routing table
computed from memory_map.windows() only.
Part 2 (transparency): the same kinds of trees over real csr.Multiplexers with stub registers,
explored (read cone and write cone separately, free driver) against RefCSR instantiated at the
addresses root.memory_map.all_resources() reports - i.e. "behaves like the same registers on one
multiplexer at the addresses the map reports".
"""
import itertools
import time

from amaranth import Module

from ..netlist import Harness
from ..hw import explore_hw, aggregate, rederive
from ..common import run_configs, finish
from ..gen.muxlayouts import make_map
from .muxcommon import MuxObserver, compact_tokens

PID = "C06"


def build(cfg):
    from amaranth_soc import csr
    from amaranth_soc.memory import MemoryMap
    dw = cfg["dw"]
    m = Module()
    leaves = []
    strangers = []

    def node_bus(node, path):
        if node["kind"] == "dec":
            dec = csr.Decoder(addr_width=node["aw"], data_width=dw, alignment=node.get("align", 0))
            m.submodules[f"dec{path}"] = dec
            for i, sub in enumerate(node["subs"]):
                bus = node_bus(sub["node"], f"{path}_{i}")
                if sub.get("align_to") is not None:
                    dec.align_to(sub["align_to"])
                if cfg.get("refusals") and path == "" and i == (1 if len(node["subs"]) > 1 else 0):
                    # a bus the decoder REFUSES (its window does not fit): it is nobody's subordinate here, whatever
                    # it does later (it may live behind another decoder) must not reach this decoder
                    z = csr.Interface(addr_width=1, data_width=dw, path=("stranger",))
                    z.memory_map = MemoryMap(addr_width=1, data_width=dw)
                    try:
                        dec.add(z, addr=1 << node["aw"])
                    except ValueError:
                        strangers.append(z)
                dec.add(bus, name=sub.get("name"), addr=sub.get("addr"))
                if cfg.get("refusals"):
                    try:
                        dec.add(bus)           # the same bus offered again: refused, and the first window stays
                    except ValueError:
                        pass
                if cfg.get("use_between"):
                    list(dec.bus.memory_map.window_patterns())
                    list(dec.bus.memory_map.all_resources())
                    if i == 0 and path == "":
                        from amaranth.hdl import Fragment
                        from amaranth.hdl._ir import build_netlist
                        build_netlist(Fragment.get(dec, None), ports=[])
            return dec.bus
        if node["kind"] == "stub":
            bus = csr.Interface(addr_width=node["aw"], data_width=dw, path=(f"leaf{path}",))
            bus.memory_map = MemoryMap(addr_width=node["aw"], data_width=dw)
            leaves.append(dict(kind="stub", bus=bus))
            return bus
        layout = dict(node["layout"], dw=dw, prefix=f"r{path}_")
        mm, stubs = make_map(layout)
        mux = csr.Multiplexer(mm, shadow_overlaps=layout.get("ov"))
        m.submodules[f"mux{path}"] = mux
        leaves.append(dict(kind="mux", bus=mux.bus, stubs=stubs))
        return mux.bus

    root = node_bus(cfg["tree"], "")
    inputs = [("addr", root.addr), ("r_stb", root.r_stb), ("w_stb", root.w_stb), ("w_data", root.w_data)]
    probes = [("r_data", root.r_data)]
    meta = dict(dw=dw, aw=root.addr_width)

    # absolute start of every leaf map, through windows() only
    starts = {}

    def walk(mm, base):
        for window, name, (start, stop, ratio) in mm.windows():
            starts[id(window)] = (base + start, base + stop)
            walk(window, base + start)
    walk(root.memory_map, 0)
    starts[id(root.memory_map)] = (0, 1 << root.addr_width)

    if cfg["part"] == 1:
        lv = []
        for k, leaf in enumerate(leaves):
            b = leaf["bus"]
            inputs.append((f"sub{k}_r_data", b.r_data))
            probes += [(f"sub{k}_addr", b.addr), (f"sub{k}_r_stb", b.r_stb), (f"sub{k}_w_stb", b.w_stb),
                       (f"sub{k}_w_data", b.w_data)]
            s, e = starts[id(b.memory_map)]
            lv.append(dict(start=s, stop=e, aw=b.addr_width))
        meta["leaves"] = lv
        for z in strangers:
            inputs.append(("stranger_r_data", z.r_data))
    else:
        regs = []
        for k, info in enumerate(root.memory_map.all_resources()):
            res = info.resource
            acc = res.element.access
            regs.append(dict(start=info.start, end=info.end, width=res.element.width,
                             rd=acc.readable(), wr=acc.writable(), path=[list(p) for p in info.path]))
            if info.width != dw:
                raise AssertionError("CSR windows do not change the data width")
            if acc.readable():
                inputs.append((f"val{k}", res.element.r_data))
                probes.append((f"r_stb{k}", res.element.r_stb))
            if acc.writable():
                probes.append((f"w_stb{k}", res.element.w_stb))
                probes.append((f"w_data{k}", res.element.w_data))
        n_stubs = sum(len(l["stubs"]) for l in leaves)
        meta["regs"] = regs
        meta["n_stubs"] = n_stubs
    return Harness(m, inputs, probes, meta)


class RouteObserver:
    """obs = index of the subordinate that received a read strobe in the previous cycle (or -1).
    CSR bus rule: a subordinate returns read data in the cycle after it was read-strobed and zero
    otherwise, so only that subordinate is offered non-zero r_data."""
    def __init__(self, cfg, h, comp):
        self.lv = h.meta["leaves"]
        self.dw = cfg["dw"]
        ii, pi = comp.in_index, comp.probe_index
        self.ii, self.pi = ii, pi
        self.init = -1
        aw = h.meta["aw"]
        n = len(self.lv)
        if self.dw <= 2:
            vals, wds = list(range(1, 1 << self.dw)), range(1 << self.dw)
        else:       # wide bus: walking / pattern tokens
            full = (1 << self.dw) - 1
            wds = sorted({0, full, 0xA5 & full, 0x5A & full} | {1 << i for i in range(self.dw)})
            vals = [v for v in wds if v]
        order = comp.in_names
        self._by_src = {}
        for src in [-1] + list(range(n)):
            letters = []
            for addr, r, w, wd in itertools.product(range(1 << aw), (0, 1), (0, 1), wds):
                for v in ([0] if src < 0 else [0] + vals):
                    for zv in ((0, vals[-1]) if "stranger_r_data" in ii else (0,)):
                        d = dict(addr=addr, r_stb=r, w_stb=w, w_data=wd, stranger_r_data=zv)
                        for k in range(n):
                            d[f"sub{k}_r_data"] = v if k == src else 0
                        letters.append(tuple(d[name] for name in order))
            self._by_src[src] = letters

    def letters(self, obs):
        return self._by_src[obs]

    def observe(self, obs, letter, outs):
        ii, pi = self.ii, self.pi
        addr, r, w, wd = letter[ii["addr"]], letter[ii["r_stb"]], letter[ii["w_stb"]], letter[ii["w_data"]]
        exp_rd = letter[ii[f"sub{obs}_r_data"]] if obs >= 0 else 0
        nxt = -1
        for k, lf in enumerate(self.lv):
            sel = lf["start"] <= addr < lf["start"] + (1 << lf["aw"])
            er, ew = (r, w) if sel else (0, 0)
            if sel and r:
                nxt = k
            gr, gw = outs[pi[f"sub{k}_r_stb"]], outs[pi[f"sub{k}_w_stb"]]
            if (gr, gw) != (er, ew):
                return dict(msg=f"subordinate {k} (window {lf['start']}..{lf['stop']}) sees r_stb={gr} w_stb={gw}, expected {er}/{ew} at address {addr}",
                            signature=dict(kind="oracle", what="strobe_routing")), obs
            if sel and (r or w):
                ga = outs[pi[f"sub{k}_addr"]]
                if ga != addr - lf["start"]:
                    return dict(msg=f"subordinate {k} receives address {ga}, expected {addr - lf['start']} (bus address {addr})",
                                signature=dict(kind="oracle", what="sub_addr")), obs
                if w and outs[pi[f"sub{k}_w_data"]] != wd:
                    return dict(msg=f"subordinate {k} receives w_data {outs[pi[f'sub{k}_w_data']]}, expected {wd}",
                                signature=dict(kind="oracle", what="sub_w_data")), obs
        if outs[pi["r_data"]] != exp_rd:
            return dict(msg=f"upstream r_data={outs[pi['r_data']]} expected {exp_rd} (the subordinate read in the previous cycle: {obs})",
                        signature=dict(kind="oracle", what="r_data")), obs
        return None, nxt


class ReadObs(MuxObserver):
    side = "r"
    tokens = staticmethod(compact_tokens)      # (which chunk of a register is which is C04's subject)


class WriteObs(MuxObserver):
    side = "w"
    tokens = staticmethod(compact_tokens)


def _only(side):
    def f(h):
        if side == "r":
            return [n for n, _ in h.probes if n == "r_data" or n.startswith("r_stb")]
        return [n for n, _ in h.probes if n.startswith("w_stb") or n.startswith("w_data")]
    return f


def stub(aw):
    return dict(kind="stub", aw=aw)


def dec(aw, subs, align=0):
    return dict(kind="dec", aw=aw, align=align, subs=subs)


def sub(node, addr=None, name=None, align_to=None):
    return dict(node=node, addr=addr, name=name, align_to=align_to)


def mux(aw, regs, ov=None, align=0):
    return dict(kind="mux", layout=dict(aw=aw, align=align, ov=ov,
                                        regs=[dict(w=w, acc=acc, addr=addr, size=0, al=None) for w, acc, addr in regs]))


def configs(tier):
    out = []
    quick = tier == "quick"
    for dw in (1, 2, 8):
        # ---- part 1: routing --------------------------------------------------------------------
        shapes = [(1,), (2,), (3,), (1, 1), (1, 2), (2, 1), (2, 2), (1, 1, 2), (2, 1, 1), (3, 1), (1, 3),
                  (1, 2, 1, 1), (2, 2, 1, 1), (1, 2, 3), (1, 1, 1, 1, 1), (1, 1, 1, 1, 1, 1), (1, 1, 2, 1, 1, 1, 1),
                  (1, 1, 1, 1, 1, 1, 1, 1)]
        for aws in (shapes if dw <= 2 else shapes[3:12:2]):
            need = sum(1 << a for a in aws) * 2
            aw_root = max(3, (need - 1).bit_length())
            if aw_root > 5:
                aw_root = 5
            if len(aws) >= 5:
                aw_root = 6 if len(aws) >= 7 else 5
            for align in (0, 1, 2) if not quick else (0, 2):
                # implicit placement, anonymous and named
                out.append(dict(part=1, dw=dw, tree=dec(aw_root, [sub(stub(a), name=(None if i % 2 else f"s{i}"))
                                                                  for i, a in enumerate(aws)], align)))
                # align_to between adds
                out.append(dict(part=1, dw=dw, tree=dec(aw_root, [sub(stub(a), align_to=(2 if i else None))
                                                                  for i, a in enumerate(aws)], align)))
                # explicit addresses handed out in DESCENDING order (insertion order != address order)
                unit = 1 << max(max(aws), align)
                slots = list(range(0, 1 << aw_root, unit))
                if len(slots) >= len(aws) + 1:
                    chosen = slots[1:len(aws) + 1][::-1]
                    out.append(dict(part=1, dw=dw, tree=dec(aw_root, [sub(stub(a), addr=ad)
                                                                      for a, ad in zip(aws, chosen)], align)))
                    # mixed: first explicit high, rest implicit after it wraps? (implicit continues after it)
                    out.append(dict(part=1, dw=dw, tree=dec(aw_root, [sub(stub(aws[0]), addr=slots[1])] +
                                                            [sub(stub(a)) for a in aws[1:]], align)))
        # a single window that fills the decoder's whole address space (no constant pattern bits at all)
        out.append(dict(part=1, dw=dw, tree=dec(3, [sub(stub(3))])))
        out.append(dict(part=1, dw=dw, tree=dec(4, [sub(dec(3, [sub(stub(3), name="all")]), name="half"), sub(stub(2))])))
        # a hole BELOW the first window while the remaining windows run back to back up to the top of the space
        # (wave 9: C01_15 - the last window decoded with an all-don't-care pattern)
        out.append(dict(part=1, dw=dw, tree=dec(4, [sub(stub(2), addr=4), sub(stub(2)), sub(stub(2))])))
        out.append(dict(part=1, dw=dw, tree=dec(4, [sub(stub(2), addr=8), sub(stub(2))])))
        out.append(dict(part=1, dw=dw, tree=dec(5, [sub(stub(3), align_to=3 + 0, addr=8), sub(stub(3)), sub(stub(3))])))
        # refused adds whose sizes add up to the holes, last window ending at the top of the space (wave 9: C06_15)
        out.append(dict(part=1, dw=dw, refusals=True, tree=dec(4, [sub(stub(1)), sub(stub(1)), sub(stub(2), addr=12)])))
        out.append(dict(part=1, dw=dw, refusals=True, tree=dec(4, [sub(stub(0)), sub(stub(1)), sub(stub(2), addr=12)])))
        # nested decoders, two deep
        out.append(dict(part=1, dw=dw, tree=dec(5, [sub(stub(2)), sub(dec(3, [sub(stub(1)), sub(stub(2), name="x")])),
                                                    sub(stub(1), name="y")])))
        out.append(dict(part=1, dw=dw, tree=dec(5, [sub(dec(4, [sub(stub(2), addr=8), sub(stub(1), addr=2)]), addr=16),
                                                    sub(stub(3), addr=0)], 0)))
        out.append(dict(part=1, dw=dw, tree=dec(5, [sub(dec(3, [sub(stub(1), addr=4)], 1), name="a"),
                                                    sub(dec(3, [sub(stub(2))], 2), name="b"), sub(stub(1))], 1)))
        # ---- part 2: transparency (real multiplexers underneath) ------------------------------------
        A = mux(2, [(dw + 1, "rw", None), (1, "rw", None)])
        B = mux(2, [(2 * dw + 1, "rw", 1)])
        C = mux(1, [(1, "r", None), (dw, "w", None)])
        D = mux(3, [(dw + 1, "rw", 1), (dw + 1, "rw", 3), (1, "rw", 6)], ov=0)
        trees = [
            dec(4, [sub(A, name="a"), sub(B, name="b")]),
            dec(4, [sub(B, addr=8), sub(A, addr=0)]),
            dec(4, [sub(C), sub(A, align_to=3)], 0),
            dec(5, [sub(A, name="a"), sub(dec(3, [sub(C), sub(B, name="q")]), name="n")]),
            dec(4, [sub(D)]),
            dec(4, [sub(C, addr=6), sub(B, addr=0), sub(dict(C), addr=4)]),
        ]
        if not quick:
            trees += [
                dec(5, [sub(A, name="a"), sub(D, name="d"), sub(B, name="b")], 1),
                dec(5, [sub(dec(4, [sub(B, addr=4), sub(A, addr=12)]), addr=16), sub(C, addr=2)]),
            ]
        for ti, t in enumerate(trees):
            if (quick and dw == 2 and ti == 3) or (dw == 8 and (ti not in (0, 1, 5) or quick and ti != 1)):
                continue        # nested tree on a 2-bit bus: 5e4 states x 256 letters, thorough only
            for side in ("r", "w"):
                out.append(dict(part=2, dw=dw, side=side, tree=t))
    # a few routing configurations with the decoder queried / elaborated between the add() calls
    out += [dict(c, use_between=True) for c in out if c["part"] == 1 and len(c["tree"]["subs"]) >= 2][::(9 if quick else 3)]
    out += [dict(c, elab_twice=True) for c in out if len(c["tree"]["subs"]) >= 2 and not c.get("use_between")][::(13 if quick else 5)]
    out += [dict(c, refusals=True) for c in out if c["part"] == 1 and not c.get("use_between") and not c.get("elab_twice")][::(7 if quick else 3)]
    out += [dict(c, refusals=True) for c in out if c["part"] == 2 and not c.get("elab_twice") and not c.get("refusals")][::(9 if quick else 4)]
    return out


def run_config(cfg, tier, seed):
    if cfg["part"] == 1:
        return explore_hw(build, RouteObserver, cfg, tier, seed)
    ob = ReadObs if cfg["side"] == "r" else WriteObs
    return explore_hw(build, ob, cfg, tier, seed, only=_only(cfg["side"]), max_seconds=3000)


def replay(data):
    cfg = data["cfg"]
    if cfg["part"] == 1:
        return rederive(build, RouteObserver, cfg, data["trace"], None)
    ob = ReadObs if cfg["side"] == "r" else WriteObs
    return rederive(build, ob, cfg, data["trace"], _only(cfg["side"]))


def main(tier, seed):
    t0 = time.time()
    results = run_configs(run_config, configs(tier), tier, seed)
    cov = aggregate(results)
    cov["rule"] = ("part 1: decoder trees over stub buses (1-4 subordinates of 1-3 address bits, orders, implicit/"
                   "explicit-descending/align_to placement, alignment 0-2, named/anonymous, nested 2 deep), all inputs; "
                   "part 2: trees over real multiplexers vs RefCSR at all_resources() addresses, full BFS per cone")
    return finish(PID, tier, seed, "model_checking", cov, ASSUMPTIONS, t0, results, min_explored=int(0.9 * len(results)))


ASSUMPTIONS = [
    "Amaranth 0.5.10 front end, build_netlist and Simulator are the trusted base", "rst held at 0",
    "data width 1-2, root address width 3-5",
    "subordinates keep r_data at zero while idle (CSR bus rule): only the subordinate that was read-strobed in the previous "
    "cycle is offered non-zero read data",
    "addresses inside the alignment padding of a window (beyond the subordinate's own address space) must select nobody",
]
