"""C07 - Wishbone decoder selects one subordinate and relays only its responses.

The decoder is combinational: its single state is enumerated with the support-factored explorer
(every output over the union of its structural and declared input support).  Oracle: routing/relay
table derived from memory_map.windows() only.
"""
import itertools
import time

from amaranth import Module

from ..netlist import Harness
from ..hw import explore_comb, aggregate, replay_comb
from ..common import run_configs, finish

PID = "C07"
OUT_FEATS = ("err", "rty", "stall")
IN_FEATS = ("lock", "cti", "bte")
ALL = OUT_FEATS + IN_FEATS


def log2(x):
    return x.bit_length() - 1


def build(cfg):
    from amaranth_soc import wishbone
    from amaranth_soc.memory import MemoryMap
    aw, dw, gran = cfg["aw"], cfg["dw"], cfg["gran"]
    dfeat = cfg["feat"]
    if cfg.get("feat_enum"):      # the same feature set given as Feature members / as the set of another interface
        dfeat = {wishbone.Feature(f) for f in dfeat}
    dec = wishbone.Decoder(addr_width=aw, data_width=dw, granularity=gran, features=dfeat,
                           alignment=cfg.get("align", 0))
    m = Module()
    m.submodules.dec = dec
    subs = []
    stranger = []
    for k, sc in enumerate(cfg["subs"]):
        if sc["kind"] == "dense":
            sdw, sgran = dw, gran
        else:
            sdw = sgran = sc["sgran"]
        sfeat = sc["feat"] if not cfg.get("feat_enum") else frozenset(wishbone.Feature(f) for f in sc["feat"])
        bus = wishbone.Interface(addr_width=sc["aw"], data_width=sdw, granularity=sgran, features=sfeat,
                                 path=(f"s{k}",))
        bus.memory_map = MemoryMap(addr_width=max(1, sc["aw"] + log2(sdw // sgran)), data_width=sgran)
        if sc.get("align_to") is not None:
            dec.align_to(sc["align_to"])
        if cfg.get("refusals") and k == min(1, len(cfg["subs"]) - 1):
            # a bus the decoder REFUSES (its window lies outside the address space): it is nobody's subordinate
            # here, and whatever it does later (behind another decoder, say) must not reach this decoder
            z = wishbone.Interface(addr_width=1, data_width=dw, granularity=gran, features=dfeat if not cfg.get("feat_enum") else cfg["feat"],
                                   path=("stranger",))
            z.memory_map = MemoryMap(addr_width=max(1, 1 + log2(dw // gran)), data_width=gran)
            try:
                dec.add(z, addr=1 << (aw + log2(dw // gran)))
            except ValueError:
                stranger.append(z)
        dec.add(bus, name=sc.get("name"), addr=sc.get("addr"), sparse=(sc["kind"] == "sparse"))
        if cfg.get("refusals"):
            try:
                dec.add(bus, sparse=(sc["kind"] == "sparse"))      # offered again: refused, the first window stays
            except ValueError:
                pass
        subs.append(bus)
        if cfg.get("use_between"):
            # the decoder is queried / elaborated while more windows are still to come: later windows
            # must be decoded all the same (no stale derived data)
            list(dec.bus.memory_map.window_patterns())
            list(dec.bus.memory_map.all_resources())
            if k == 0:
                from amaranth.hdl import Fragment
                from amaranth.hdl._ir import build_netlist
                build_netlist(Fragment.get(dec, None), ports=[])
    b = dec.bus
    inputs = [(n, getattr(b, n)) for n in ("adr", "dat_w", "sel", "cyc", "stb", "we", "lock", "cti", "bte") if hasattr(b, n)]
    probes = [(n, getattr(b, n)) for n in ("ack", "err", "rty", "stall", "dat_r") if hasattr(b, n)]
    meta = dict(subs=[])
    for z in stranger:
        for n in ("ack", "err", "rty", "stall", "dat_r"):
            if hasattr(z, n):
                inputs.append((f"stranger_{n}", getattr(z, n)))
    wins = {id(w): (start, stop, ratio) for w, name, (start, stop, ratio) in b.memory_map.windows()}
    for k, s in enumerate(subs):
        for n in ("ack", "err", "rty", "stall", "dat_r"):
            if hasattr(s, n):
                inputs.append((f"s{k}_{n}", getattr(s, n)))
        for n in ("cyc", "stb", "adr", "sel", "we", "dat_w", "lock", "cti", "bte"):
            if hasattr(s, n):
                probes.append((f"s{k}_{n}", getattr(s, n)))
        start, stop, ratio = wins[id(s.memory_map)]
        kind = cfg["subs"][k]["kind"]
        if s.data_width == dw and s.granularity == gran:
            kind = "dense"          # equal geometry: the sparse flag is ignored by the memory map
        meta["subs"].append(dict(start=start, stop=stop, ratio=ratio, map_aw=s.memory_map.addr_width,
                                 aw=s.addr_width, dw=s.data_width, kind=kind,
                                 feat=sorted(f.value for f in s.features)))
    meta["map_aw"] = b.memory_map.addr_width
    return Harness(m, inputs, probes, meta)


def walking(width):
    full = (1 << width) - 1
    vals = {0, full}
    for i in range(width):
        vals.add(1 << i)
        vals.add(full ^ (1 << i))
    return sorted(vals)


def thin(width, salt):
    full = (1 << width) - 1
    a = int(("10100101" * 8)[-width:], 2) if width else 0
    b = int(("11000011" * 8)[-width:], 2) if width else 0
    sets = [(0, full, a, a ^ full), (0, full, b, b ^ full), (0, full, a ^ b, (a ^ b) ^ full)]
    return sorted(set(sets[salt % 3]))


class Ref:
    def __init__(self, cfg, h, comp):
        self.cfg = cfg
        self.ii, self.pi = comp.in_index, comp.probe_index
        self.widths = dict(zip(comp.in_names, comp.in_widths))
        self.subs = h.meta["subs"]
        self.gbits = log2(cfg["dw"] // cfg["gran"])
        self.feat = set(cfg["feat"])
        self.n = len(self.subs)
        self.declared = {}
        for p in comp.probe_names:
            if p in ("ack", "err", "rty", "stall", "dat_r"):
                self.declared[p] = {"adr", "cyc"} | {f"s{k}_{p}" for k in range(self.n) if f"s{k}_{p}" in self.ii}
                if f"stranger_{p}" in self.ii:
                    self.declared[p].add(f"stranger_{p}")      # (the expected value does not depend on it)
            else:
                k, nme = p.split("_", 1)
                d = {"adr", "cyc"}
                if nme != "adr" and nme in self.ii:
                    d.add(nme)
                self.declared[p] = d

    def what(self, p):
        return p.split("_", 1)[1] if p.startswith("s") and "_" in p and p[1].isdigit() else "bus_" + p

    def alphabet(self, name, wide):
        w = self.widths[name]
        if w == 0:
            return [0]
        if name.startswith("stranger_"):
            return [0, (1 << w) - 1]
        if self.n > 6 and name.startswith("s") and name[1:].split("_")[0].isdigit() and name.endswith("dat_r"):
            # many subordinates: zero or one tag per subordinate (the product over all of them is enumerated)
            k = int(name[1:].split("_")[0])
            return [0, ((k + 1) * 0x1D) & ((1 << w) - 1) or 1]
        base = name.split("_")[-1] if name.startswith("s") and name[1].isdigit() else name
        if base in ("dat_w", "dat_r") or (base == "r" ):
            salt = int(name[1]) + 1 if name.startswith("s") and name[1].isdigit() else 0
            return walking(w) if wide else thin(w, salt)
        if base == "sel" and w > 4:
            return walking(w)
        return list(range(1 << w))

    def selected(self, adr):
        ga = adr << self.gbits
        for k, s in enumerate(self.subs):
            if s["start"] <= ga < s["start"] + (1 << s["map_aw"]):
                return k
        return None

    def expected(self, letter):
        ii = self.ii
        g = lambda n, d=0: letter[ii[n]] if n in ii else d
        adr = g("adr")
        sel = self.selected(adr)
        exp = {}
        cyc = g("cyc")
        for k, s in enumerate(self.subs):
            exp[f"s{k}_cyc"] = cyc if k == sel else 0
            if k != sel or not cyc:
                continue          # request signals are claimed for the subordinate that SEES the cycle
            exp[f"s{k}_stb"] = g("stb")
            exp[f"s{k}_we"] = g("we")
            sdw = s["dw"]
            exp[f"s{k}_dat_w"] = g("dat_w") & ((1 << sdw) - 1)
            if "lock" in s["feat"]:
                exp[f"s{k}_lock"] = g("lock")
            if "cti" in s["feat"]:
                exp[f"s{k}_cti"] = g("cti")
            if "bte" in s["feat"]:
                exp[f"s{k}_bte"] = g("bte")
            if s["kind"] == "dense":
                exp[f"s{k}_adr"] = (adr - (s["start"] >> self.gbits)) & ((1 << s["aw"]) - 1)
                exp[f"s{k}_sel"] = g("sel")
        # responses: assumption "subordinates respond only while selected"
        stray = any(g(f"s{k}_{n}") for k in range(self.n) if k != sel for n in ("ack", "err", "rty", "stall"))
        # relayed while a cycle is in progress; "an address that selects nobody produces no response"
        for n in ("ack", "err", "rty", "stall"):
            if n == "ack" or n in self.feat:
                if sel is None:
                    exp[n] = None if stray else 0
                elif stray or not cyc or f"s{sel}_{n}" not in ii:
                    exp[n] = None       # (a selected subordinate lacking the line: not constrained by the property)
                else:
                    exp[n] = g(f"s{sel}_{n}")
        if sel is None:
            exp["dat_r"] = 0
        else:
            exp["dat_r"] = g(f"s{sel}_dat_r") if cyc else None
        return exp


def sub_feats(policy, dfeat):
    allowed_out = [f for f in OUT_FEATS if f in dfeat]
    return {
        "same": tuple(dfeat),
        "none": (),
        "max": tuple(allowed_out) + IN_FEATS,
        "cti": ("cti",),
        "bte": ("bte",),
        "outs": tuple(allowed_out),
        "lock": ("lock",) + tuple(allowed_out[:1]),
    }[policy]


def configs(tier):
    quick = tier == "quick"
    out, seen = [], set()

    def add(c):
        k = repr(c)
        if k not in seen:
            seen.add(k); out.append(c)

    feats = [(), ALL] + [(f,) for f in ALL]
    if not quick:
        feats = [tuple(f for f, b in zip(ALL, bits) if b) for bits in itertools.product((0, 1), repeat=6)]
    geoms = [(3, 8, 8), (2, 16, 8), (3, 32, 8), (2, 32, 16), (1, 64, 8), (2, 64, 64), (4, 16, 16), (0, 8, 8), (0, 16, 8), (5, 8, 8)]
    if quick:
        geoms = geoms[:8]
    policies = ("same", "none", "max", "cti", "bte", "outs", "lock")

    def dense(aw, pol, dfeat, **kw):
        return dict(kind="dense", aw=aw, feat=sub_feats(pol, dfeat), **kw)

    for gi, (aw, dw, gran) in enumerate(geoms):
        gb = log2(dw // gran)
        for fi, dfeat in enumerate(feats):
            if not quick and gi >= 4 and (fi % 4) != (gi % 4) and dfeat not in ((), ALL):
                continue      # thorough: all 64 subsets on the first four geometries, spread over the others
            pol = policies[(fi + gi) % len(policies)]
            pol2 = policies[(fi + gi + 3) % len(policies)]
            if aw == 0:
                add(dict(aw=aw, dw=dw, gran=gran, feat=dfeat, subs=[dense(0, pol, dfeat)]))
                continue
            # one window not at 0 (explicit), two windows of different size in both orders, three with align_to
            w1 = max(0, aw - 2)
            add(dict(aw=aw, dw=dw, gran=gran, feat=dfeat, subs=[dense(w1, pol, dfeat, addr=(1 << (max(1, w1 + gb))))]))
            add(dict(aw=aw, dw=dw, gran=gran, feat=dfeat, subs=[dense(w1, pol, dfeat), dense(max(0, aw - 1), pol2, dfeat, name="b")]))
            add(dict(aw=aw, dw=dw, gran=gran, feat=dfeat, subs=[dense(max(0, aw - 1), pol2, dfeat, addr=(1 << (aw - 1 + gb))), dense(w1, pol, dfeat, addr=0)]))
            if aw >= 3:
                add(dict(aw=aw, dw=dw, gran=gran, feat=dfeat, align=(fi % 3),
                         subs=[dense(0, pol, dfeat), dense(1, "none", dfeat, align_to=aw + gb - 1), dense(0, pol2, dfeat, name="c")]))
                add(dict(aw=aw, dw=dw, gran=gran, feat=dfeat, align=aw + gb - 1, subs=[dense(0, pol, dfeat), dense(0, pol2, dfeat)]))
            # sparse window next to a dense one
            if gran >= 8:
                for sg in sorted({8, gran}):
                    if sg <= gran:
                        add(dict(aw=aw, dw=dw, gran=gran, feat=dfeat,
                                 subs=[dense(w1, pol, dfeat), dict(kind="sparse", aw=max(1, min(2, aw + gb - 1)), sgran=sg, feat=sub_feats("outs", dfeat))]))
    # many windows (4-6) of mixed sizes, some explicit and out of order
    for gi, (aw, dw, gran) in enumerate([(5, 8, 8), (4, 32, 8), (4, 16, 16)]):
        gb = log2(dw // gran)
        for fi, dfeat in enumerate([(), ALL, ("err", "bte")]):
            subs = [dense(k % 2, policies[(k + fi) % len(policies)], dfeat, name=(None if k % 3 else f"w{k}")) for k in range(4 + gi)]
            add(dict(aw=aw, dw=dw, gran=gran, feat=dfeat, subs=subs))
            subs2 = [dense(0, policies[(k + fi + 1) % len(policies)], dfeat, addr=((5 - k) << max(1, gb))) for k in range(6)]
            add(dict(aw=aw, dw=dw, gran=gran, feat=dfeat, subs=subs2))
    # eleven to thirteen one-word windows (two-digit window numbers), in address order and reversed
    for n, rev in ((11, False), (12, True)):
        subs12 = [dense(0, "same", (), **({} if not rev else dict(addr=2 * (n - 1 - k)))) for k in range(n)]
        add(dict(aw=5, dw=8, gran=8, feat=(), subs=subs12))
    # the same configurations with the decoder queried and elaborated between the add() calls
    extra = [dict(c, use_between=True) for c in out if len(c["subs"]) >= 2][::(6 if quick else 2)]
    extra += [dict(c, feat_enum=True) for c in out if c["feat"]][::(5 if quick else 2)]
    extra += [dict(c, elab_twice=True) for c in out if len(c["subs"]) >= 2][::(11 if quick else 4)]
    extra += [dict(c, refusals=True) for c in out][::(8 if quick else 3)]
    return out + extra


def run_config(cfg, tier, seed):
    return explore_comb(build, Ref, cfg, tier, seed)


def replay(data):
    return replay_comb(build, Ref, data["cfg"], data["trace"])


def main(tier, seed):
    t0 = time.time()
    results = run_configs(run_config, configs(tier), tier, seed)
    cov = aggregate(results)
    cov["support_groups"] = sum(r.get("support_groups", 0) for r in results)
    cov["groups_thinned"] = sum(r.get("groups_thinned", 0) for r in results)
    cov["rule"] = ("geometries (addr 0-5, data 8-64, granularity) x decoder feature subsets (quick: none/all/singles; thorough: all 64) x "
                   "1-3 windows (dense equal granularity, sparse; explicit/implicit/align_to/alignment; feature policies); every output "
                   "over the union of structural and declared input support")
    return finish(PID, tier, seed, "model_checking", cov, ASSUMPTIONS, t0, results, min_explored=int(0.9 * len(results)))


ASSUMPTIONS = [
    "Amaranth 0.5.10 front end, build_netlist and Simulator are the trusted base",
    "the decoder has no state (asserted per netlist); transitions = evaluated letters of the single state",
    "wide data: walking-1/walking-0/all-0/all-1 tokens (thinned to 4 tokens per agent when a support product exceeds 40000)",
    "responses of unselected subordinates are low (Wishbone rule); their dat_r is arbitrary",
    "dense windows onto finer-granularity subordinates are outside the property's domain and are not generated; "
    "for sparse windows only selection, we/stb/lock/cti/bte and the (truncated) write data are checked",
]
