"""C01 - the memory map tells the truth about the hardware, end to end.

Bus hierarchies from a bounded grammar (root wishbone.Decoder over WishboneSRAMs and
WishboneCSRBridges over csr.Decoders / csr.Bridge / csr.EventMonitor / gpio.Peripheral, nested CSR
decoders; named/anonymous windows, implicit/explicit addresses, align_to, window orders).  For each
hierarchy the REAL flattened netlist is explored cycle by cycle under a Wishbone classic initiator
that performs whole transfers (every root word address x read/write x a family of select masks,
address-derived data tokens), each followed by idle cycles; BFS over the quiescent states to a
transaction depth.  Leaves are found through the map only (ResourceInfo.resource.element for CSR
registers, the Memory object for SRAMs).
Oracle: a flat reference built ONLY from root.memory_map: all_resources() ranges drive a RefCSR over
the CSR-backed ranges and word arrays over the SRAM ranges; per transfer exactly the decoded leaves
are touched at offset address - info.start, nothing else strobes, no other SRAM sees a cycle, no
memory word changes; read data equals the reference lane by lane; addresses outside every Wishbone
window are never acknowledged; holes inside a CSR window give zero data and no strobe.
"""
import itertools
import time

from amaranth import Module

from ..netlist import Harness
from ..hw import explore_hw, aggregate, rederive
from ..common import run_configs, finish
from ..ref.csr import RefCSR

PID = "C01"


def tok(ga, fl):
    return (ga * 37 + 11 + 101 * fl) & 0xFF


# ---------------------------------------------------------------------------------------------------
# building a hierarchy from a spec
# ---------------------------------------------------------------------------------------------------

def build(cfg):
    from amaranth.lib import memory as libmem
    from amaranth_soc import csr, wishbone, event, gpio
    from amaranth_soc.csr import action
    from amaranth_soc.csr.wishbone import WishboneCSRBridge
    from amaranth_soc.csr.event import EventMonitor
    from amaranth_soc.wishbone.sram import WishboneSRAM
    from amaranth_soc.memory import MemoryMap
    m = Module()
    extra_inputs = []
    srams = []
    count = [0]

    def uid(p):
        count[0] += 1
        return f"{p}{count[0]}"

    def csr_node(node):
        """-> csr bus of the subtree"""
        kind = node[0]
        if kind == "bridge":
            _, aw, regs = node
            b = csr.Builder(addr_width=aw, data_width=8)
            for k, (w, off, acc) in enumerate(regs):
                act = dict(rw=action.RW, w=action.W, r=action.R, rw1c=action.RW1C)[acc]

                class Reg(csr.Register, access=dict(rw="rw", w="w", r="r", rw1c="rw")[acc]):
                    def __init__(self):
                        super().__init__({"f": csr.Field(act, w)})
                r = Reg()
                if k % 2:
                    with b.Cluster("grp"):
                        with b.Index(k):
                            b.add("reg", r, offset=off)
                else:
                    b.add(f"reg{k}", r, offset=off)
                if acc == "r":
                    extra_inputs.append((uid("rin"), r.f.f.r_data))
                if acc == "rw1c":
                    extra_inputs.append((uid("set"), r.f.f.set))
            x = csr.Bridge(b.as_memory_map())
            m.submodules[uid("bridge")] = x
            return x.bus
        if kind == "mux":
            # a csr.Multiplexer used directly over a hand-made map; `late` = number of registers in the map when
            # the multiplexer object is constructed (it does not freeze its map; None = all of them)
            _, aw, regs, late = node
            mm = MemoryMap(addr_width=aw, data_width=8)
            x = None
            for k, (w, addr, acc) in enumerate(regs):
                if late == k:
                    x = csr.Multiplexer(mm)
                act = dict(rw=action.RW, w=action.W, r=action.R, rw1c=action.RW1C)[acc]

                class MReg(csr.Register, access=dict(rw="rw", w="w", r="r", rw1c="rw")[acc]):
                    def __init__(self):
                        super().__init__({"f": csr.Field(act, w)})
                r = MReg()
                m.submodules[uid("mreg")] = r
                mm.add_resource(r, name=(f"m{k}",), size=max(1, -(-w // 8)), addr=addr)
                if acc == "r":
                    extra_inputs.append((uid("rin"), r.f.f.r_data))
                if acc == "rw1c":
                    extra_inputs.append((uid("set"), r.f.f.set))
            if late == "swap":
                # constructed over a placeholder map; the real one is assigned through the bus's public setter
                x = csr.Multiplexer(MemoryMap(addr_width=aw, data_width=8))
                x.bus.memory_map = mm
            if x is None:
                x = csr.Multiplexer(mm)
            m.submodules[uid("mux")] = x
            return x.bus
        if kind == "evmon":
            _, n, align = node
            em = event.EventMap()
            for k in range(n):
                s = event.Source(path=(uid("src"),))
                em.add(s)
                extra_inputs.append((uid("ev"), s.i))
            x = EventMonitor(em, data_width=8, alignment=align)
            m.submodules[uid("evmon")] = x
            return x.bus
        if kind == "gpio":
            _, pins, aw = node
            x = gpio.Peripheral(pin_count=pins, addr_width=aw, data_width=8, input_stages=0)
            m.submodules[uid("gpio")] = x
            for k in range(pins):
                extra_inputs.append((uid("pin"), x.pins[k].i))
            return x.bus
        if kind == "dec":
            _, aw, align, subs = node
            d = csr.Decoder(addr_width=aw, data_width=8, alignment=align)
            for sub in subs:
                bus = csr_node(sub["node"])
                if sub.get("align_to") is not None:
                    d.align_to(sub["align_to"])
                d.add(bus, name=sub.get("name"), addr=sub.get("addr"))
                if cfg.get("refusals"):
                    try:
                        d.add(bus)          # offered a second time: refused, and the window it already has stays
                    except ValueError:
                        pass
            m.submodules[uid("cdec")] = d
            return d.bus
        raise KeyError(kind)

    dw, aw = cfg["dw"], cfg["aw"]
    root = wishbone.Decoder(addr_width=aw, data_width=dw, granularity=8, alignment=cfg.get("align", 0))
    m.submodules.root = root
    for sub in cfg["subs"]:
        node = sub["node"]
        if node[0] == "sram":
            _, size, writable = node
            x = WishboneSRAM(size=size, data_width=dw, granularity=8, writable=writable,
                             init=[(0x1111111111111111 * (k + 1)) & ((1 << dw) - 1) for k in range(size * 8 // dw)])
            m.submodules[uid("sram")] = x
            srams.append(x)
            bus = x.wb_bus
        else:
            cbus = csr_node(node[1])
            x = WishboneCSRBridge(cbus, data_width=dw, name=node[2] if len(node) > 2 else None)
            m.submodules[uid("wbcsr")] = x
            bus = x.wb_bus
        if sub.get("align_to") is not None:
            root.align_to(sub["align_to"])
        root.add(bus, name=sub.get("name"), addr=sub.get("addr"))
        if cfg.get("refusals"):
            try:
                root.add(bus)
            except ValueError:
                pass
    b = root.bus
    inputs = [("adr", b.adr), ("cyc", b.cyc), ("stb", b.stb), ("we", b.we), ("sel", b.sel), ("dat_w", b.dat_w)] + extra_inputs
    probes = [("ack", b.ack), ("dat_r", b.dat_r)]
    leaves = []
    for k, info in enumerate(b.memory_map.all_resources()):
        res = info.resource
        rec = dict(start=info.start, end=info.end, width=info.width, path=[list(map(str, p)) for p in info.path])
        if isinstance(res, libmem.Memory):
            owner = [n for n, x in enumerate(srams) if any(r is res for r, _, _ in x.wb_bus.memory_map.resources())]
            rec.update(kind="mem", depth=res.data.depth, init=[int(v) for v in res.data.init],
                       sram=owner[0], writable=srams[owner[0]].writable)
            probes.append((f"mem{k}", res))
        elif hasattr(res, "element"):
            el = res.element
            rec.update(kind="reg", rwidth=el.width, rd=el.access.readable(), wr=el.access.writable())
            if el.access.readable():
                probes += [(f"r_stb{k}", el.r_stb), (f"r_val{k}", el.r_data)]
            if el.access.writable():
                probes += [(f"w_stb{k}", el.w_stb), (f"w_data{k}", el.w_data)]
        else:
            rec.update(kind="other")
        leaves.append(rec)
    for k, s in enumerate(srams):
        probes.append((f"sram_cyc{k}", s.wb_bus.cyc))
    wins = [dict(start=s, span=1 << w.addr_width) for w, n, (s, e, r) in b.memory_map.windows()]
    decode = []
    for a in range(1 << b.memory_map.addr_width):
        r = b.memory_map.decode_address(a)
        decode.append(None if r is None else [k for k, info in enumerate(b.memory_map.all_resources()) if info.resource is r][0])
    meta = dict(leaves=leaves, windows=wins, lanes=dw // 8, aw=aw, n_srams=len(srams), decode=decode,
                map_aw=b.memory_map.addr_width)
    return Harness(m, inputs, probes, meta)


# ---------------------------------------------------------------------------------------------------
# observer: Wishbone initiator automaton + flat reference
# ---------------------------------------------------------------------------------------------------

class Observer:
    """obs = (phase, n_done, csr txn state, memory images, events)
       phase: ('idle',) | ('xfer', t, adr, we, sel, acked, dat_r) | ('cool', t, xfer...)"""
    HORIZON_EXTRA = 5

    def __init__(self, cfg, h, comp):
        self.cfg = cfg
        meta = h.meta
        self.leaves = meta["leaves"]
        self.lanes = meta["lanes"]
        self.ii, self.pi = comp.in_index, comp.probe_index
        self.order = comp.in_names
        self.depth = cfg["depth"]
        # inputs behind the registers (read-only register values, pins, event lines) are held at fixed NON-ZERO
        # patterns, so that what such a register returns differs from what an unassigned address returns
        self.const = {}
        for k, (name, w) in enumerate(zip(comp.in_names, comp.in_widths)):
            if name not in ("adr", "cyc", "stb", "we", "sel", "dat_w") and w:
                self.const[name] = (0xA5C3 >> (k % 5)) & ((1 << w) - 1) or 1
        self.meta_err = None
        regs, self.reg_leaf = [], []
        self.mems = []
        covered = {}
        for k, lf in enumerate(self.leaves):
            if lf["kind"] == "reg":
                if lf["width"] != 8:
                    self.meta_err = f"register {lf['path']} reported with width {lf['width']} on an 8-bit granularity bus"
                regs.append((lf["start"], lf["end"], lf["rwidth"], lf["rd"], lf["wr"]))
                self.reg_leaf.append(k)
            elif lf["kind"] == "mem":
                self.mems.append(k)
            for a in range(lf["start"], lf["end"]):
                if a in covered:
                    self.meta_err = f"all_resources() reports overlapping ranges at {a}"
                covered[a] = k
        # the three public views must agree with each other for every address (C03 decides the arithmetic)
        for a, k in enumerate(meta["decode"]):
            if covered.get(a) != k:
                self.meta_err = f"decode_address({a}) disagrees with all_resources()"
        self.ref = RefCSR(regs, 8)
        self.windows = meta["windows"]
        self.horizon = self.lanes + 1 + self.HORIZON_EXTRA
        mem_init = tuple(tuple(self.leaves[k]["init"][:self.leaves[k]["depth"]] + [0] * (self.leaves[k]["depth"] - len(self.leaves[k]["init"])))
                         for k in self.mems)
        self.init = (("idle",), 0, (None, None), mem_init, ())
        nl = self.lanes
        full = (1 << nl) - 1
        if nl == 1:
            sels = [1, 0]
        elif nl == 2:
            sels = [1, 2, 3]
        else:
            sels = [1 << i for i in range(nl)] + [full, 0b0110 & full, 0b0101 & full]
            if cfg.get("all_sel"):
                sels = list(range(1, 1 << nl))
        self.xfers = [(adr, we, sel) for adr in range(1 << meta["aw"]) for we in (0, 1) for sel in sels]
        # back-to-back mode: a step is a PAIR of transfers with no idle cycle in between (cyc and stb stay high after
        # the acknowledge, as in a Wishbone block cycle).  First transfers: the first and last word of every leaf and
        # of every kind of hole, read and write, all lanes; second transfers: everything.
        self.b2b = bool(cfg.get("b2b"))
        cls = {}
        for adr in range(1 << meta["aw"]):
            g0 = adr * nl
            k = meta["decode"][g0] if g0 < len(meta["decode"]) else None
            key = k if k is not None else ("hole", any(w["start"] <= g0 < w["start"] + w["span"] for w in self.windows))
            cls.setdefault(key, []).append(adr)
        reps = sorted({a for v in cls.values() for a in (v[0], v[-1])})
        self.first = [(adr, we, full) for adr in reps for we in (0, 1)]
        self.n_sram = meta["n_srams"]

    # ---- letters -------------------------------------------------------------------------------------
    def mk(self, adr, cyc, stb, we, sel, dat_w):
        d = dict(self.const, adr=adr, cyc=cyc, stb=stb, we=we, sel=sel, dat_w=dat_w)
        return tuple(d.get(n, 0) for n in self.order)

    def dat(self, adr, fl=0):
        v = 0
        for i in range(self.lanes):
            v |= tok(adr * self.lanes + i, fl) << (8 * i)
        return v

    def letters(self, obs):
        phase, n_done = obs[0], obs[1]
        if phase[0] == "idle":
            if n_done >= self.depth:
                return []
            return [self.mk(adr, 1, 1, we, sel, self.dat(adr, n_done & 1)) for adr, we, sel in (self.first if self.b2b else self.xfers)]
        if phase[0] == "next":
            return [self.mk(adr, 1, 1, we, sel, self.dat(adr, 1 - phase[1][3])) for adr, we, sel in self.xfers]
        if phase[0] == "xfer":
            _, t, adr, we, sel, fl = phase[:6]
            return [self.mk(adr, 1, 1, we, sel, self.dat(adr, fl))]
        return [self.mk(0, 0, 0, 0, 0, 0)]

    # ---- per-cycle bookkeeping + end-of-transfer comparison ---------------------------------------------
    def observe(self, obs, letter, outs):
        if self.meta_err:
            return dict(msg=self.meta_err, signature=dict(kind="metadata")), obs
        phase, n_done, txn, mems, events = obs
        pi, ii = self.pi, self.ii
        if phase[0] == "idle":
            fl = n_done & 1
            phase = ("xfer", 0, letter[ii["adr"]], letter[ii["we"]], letter[ii["sel"]], fl, 0, None, None)
        elif phase[0] == "next":
            phase = ("xfer", 0, letter[ii["adr"]], letter[ii["we"]], letter[ii["sel"]], 1 - phase[1][3], 0, None, phase[1])
        kind, t, adr, we, sel, fl, acks, dat_r, prev = phase
        # record what the leaves see in this cycle
        ev = []
        for n, k in enumerate(self.reg_leaf):
            lf = self.leaves[k]
            if lf["rd"] and outs[pi[f"r_stb{k}"]]:
                ev.append(("r", n, outs[pi[f"r_val{k}"]]))
            if lf["wr"] and outs[pi[f"w_stb{k}"]]:
                ev.append(("w", n, outs[pi[f"w_data{k}"]]))
        for s in range(self.n_sram):
            if outs[pi[f"sram_cyc{s}"]]:
                ev.append(("cyc", s, 0))
        if ev:
            events = events + tuple(ev)
        if outs[pi["ack"]]:
            acks += 1
            if dat_r is None:
                dat_r = outs[pi["dat_r"]]
        if kind == "xfer":
            if outs[pi["ack"]] or t >= self.horizon:
                if self.b2b and prev is None:
                    # the next transfer is presented in the very next cycle
                    return None, (("next", (adr, we, sel, fl, acks, dat_r)), n_done, txn, mems, events)
                return None, (("cool", 0, adr, we, sel, fl, acks, dat_r, prev), n_done, txn, mems, events)
            return None, (("xfer", t + 1, adr, we, sel, fl, acks, dat_r, prev), n_done, txn, mems, events)
        # cooling down: two idle cycles so that registered write strobes are seen, then compare
        if t < 2:
            return None, (("cool", t + 1, adr, we, sel, fl, acks, dat_r, prev), n_done, txn, mems, events)
        ri0 = wi0 = 0
        cyc0 = set()
        if prev is not None:
            r = self.compare(*prev, txn, mems, events, outs, 0, 0, False, set(), "first of a back-to-back pair: ")
            if r[0] is not None:
                return r[0], obs
            _, txn, mems, ri0, wi0, cyc0 = r
        r = self.compare(adr, we, sel, fl, acks, dat_r, txn, mems, events, outs, ri0, wi0, True, cyc0,
                         "second of a back-to-back pair: " if prev is not None else "")
        if r[0] is not None:
            return r[0], obs
        return None, (("idle",), n_done + 1, r[1], r[2], ())

    def compare(self, adr, we, sel, fl, acks, dat_r, txn, mems, events, outs, ri0=0, wi0=0, final=True, cyc_before=(), tag=""):
        pi = self.pi
        lanes = self.lanes
        g0 = adr * lanes
        in_window = any(w["start"] <= g0 < w["start"] + w["span"] for w in self.windows)

        def fail(msg, what):
            return dict(msg=f"{tag}transfer adr={adr} we={we} sel={sel:#b}: {msg}", signature=dict(kind="oracle", what=what)), txn, mems

        if in_window and acks != 1:
            return fail(f"acknowledged {acks} times, expected exactly once (address inside a window)", "ack")
        if not in_window and acks != 0:
            return fail("acknowledged although no window covers the address", "ack_unassigned")
        # expected leaf events, in order, from the map only
        r_cur, w_cur = txn
        st = (r_cur, w_cur, ("zero",), None)
        exp_events = []
        lane_expect = {}
        obs_r = [e for e in events if e[0] == "r"]
        obs_w = [e for e in events if e[0] == "w"]
        obs_cyc = sorted({e[1] for e in events if e[0] == "cyc"})
        ri, wi = ri0, wi0
        new_mems = list(mems)
        exp_cyc = set()
        for i in range(lanes):
            if not (sel >> i) & 1:
                continue
            ga = g0 + i
            leaf = None
            for k, lf in enumerate(self.leaves):
                if lf["start"] <= ga < lf["end"]:
                    leaf = k
            if leaf is not None and self.leaves[leaf]["kind"] == "mem":
                mi = self.mems.index(leaf)
                lf = self.leaves[leaf]
                row = (ga - lf["start"]) // lanes
                exp_cyc.add(lf["sram"])
                if we and lf["writable"]:
                    rowv = new_mems[mi][row]
                    rowv = (rowv & ~(0xFF << (8 * i))) | (tok(ga, fl) << (8 * i))
                    new_mems[mi] = new_mems[mi][:row] + (rowv,) + new_mems[mi][row + 1:]
                if not we:
                    lane_expect[i] = ("val", (mems[mi][row] >> (8 * i)) & 0xFF)
                continue
            if not in_window:
                continue
            # CSR-backed (or a hole inside a CSR window): one CSR access at granule address ga
            def regval(n, _ri=[ri]):
                return None
            want_r = None
            tgt = self.ref.lut.get(ga)
            if not we and tgt is not None and tgt[1] == 0 and self.ref.regs[tgt[0]][3]:
                # first chunk of a readable register: it must see r_stb now; the value it presents is observed
                if ri >= len(obs_r) or obs_r[ri][1] != tgt[0]:
                    return fail(f"register {self.leaves[self.reg_leaf[tgt[0]]]['path']} (decoded from granule {ga}) saw no read strobe "
                                f"(observed strobes: {[(e[0], self.leaves[self.reg_leaf[e[1]]]['path']) for e in events if e[0] != 'cyc']})", "r_stb_missing")
                want_r = obs_r[ri][2]
                ri += 1
            _, _, _, nst = self.ref.step(st, ga, 0 if we else 1, 1 if we else 0, tok(ga, fl), lambda n: want_r)
            if not we:
                lane_expect[i] = nst[2]
            if nst[3] is not None:
                k, chunks = nst[3]
                if wi >= len(obs_w) or obs_w[wi][1] != k:
                    return fail(f"register {self.leaves[self.reg_leaf[k]]['path']} (last address = granule {ga}) saw no write strobe", "w_stb_missing")
                mk, v = self.ref.w_expect(k, chunks)
                if obs_w[wi][2] & mk != v:
                    return fail(f"register {self.leaves[self.reg_leaf[k]]['path']} written with {obs_w[wi][2]:#x}, expected {v:#x} under mask {mk:#x}", "w_data")
                wi += 1
            st = (nst[0], nst[1], ("zero",), None)
        if final and (ri != len(obs_r) or wi != len(obs_w)):
            extra = obs_r[ri:] + obs_w[wi:]
            return fail(f"leaf strobes the map does not account for: {[(e[0], self.leaves[self.reg_leaf[e[1]]]['path']) for e in extra]}", "spurious_strobe")
        if not in_window:
            exp_cyc = set()
        elif not exp_cyc:
            # a transfer inside an SRAM window with no lane selected still shows cyc to that SRAM only
            for mi, k in enumerate(self.mems):
                lf = self.leaves[k]
                if lf["start"] <= g0 < lf["end"]:
                    exp_cyc.add(lf["sram"])
        exp_cyc = exp_cyc | set(cyc_before)
        if final and set(obs_cyc) - exp_cyc:
            return fail(f"SRAM(s) {sorted(set(obs_cyc) - exp_cyc)} saw a bus cycle although the address decodes elsewhere", "sram_cyc")
        for mi, k in enumerate(self.mems):
            if final and outs[pi[f"mem{k}"]] != new_mems[mi]:
                return fail(f"memory {self.leaves[k]['path']} is {outs[pi[f'mem{k}']]}, expected {new_mems[mi]}", "memory")
        if not we and in_window:
            for i, e in lane_expect.items():
                got = (dat_r >> (8 * i)) & 0xFF
                if e[0] == "zero" and got != 0:
                    return fail(f"lane {i} (granule {g0 + i}, unassigned or write-only) reads {got:#x}, expected zero", "read_zero")
                if e[0] == "val" and got != e[1]:
                    return fail(f"lane {i} (granule {g0 + i}) reads {got:#x}, expected {e[1]:#x}", "read_data")
        return None, (st[0], st[1]), tuple(new_mems), ri, wi, exp_cyc


# ---------------------------------------------------------------------------------------------------
# grammar
# ---------------------------------------------------------------------------------------------------

def S(node, **kw):
    return dict(node=node, **kw)


def configs(tier):
    quick = tier == "quick"
    depth = 2 if quick else 3
    br_a = ("bridge", 3, [(8, None, "rw"), (12, None, "rw"), (1, None, "w")])
    br_b = ("bridge", 3, [(20, None, "rw"), (8, 4, "r")])
    br_c = ("bridge", 2, [(16, 0, "rw1c"), (5, None, "rw")])
    ev1 = ("evmon", 1, 0)
    ev3 = ("evmon", 3, 1)
    ev20 = ("evmon", 20, 0)        # 3-chunk mask registers: 'pending' sits at the unaligned range 3..6
    gp = ("gpio", 2, 2)
    br_wide = ("bridge", 4, [(48, None, "rw"), (8, None, "r"), (20, None, "rw")])      # six and three bus words
    cdec7 = ("dec", 6, 0, [S(("bridge", 2, [(8, None, "rw")]), name=f"w{k}") for k in range(7)])     # seven windows
    mx_late = ("mux", 3, [(8, None, "rw"), (16, 2, "rw"), (8, None, "r"), (12, 6, "rw")], 2)
    mx_all = ("mux", 3, [(20, 1, "rw"), (8, None, "w")], "swap")
    cdec1 = ("dec", 5, 0, [S(br_a, name="a"), S(ev1), S(gp, name="gpio")])
    cdec2 = ("dec", 5, 0, [S(ev3, addr=16), S(br_b, addr=0, name="b")])
    cdec_nested = ("dec", 6, 0, [S(br_c, name="c"), S(("dec", 4, 0, [S(ev1, name="ev"), S(br_b)]), name="inner", align_to=5)])
    out = []

    def add(dw, aw, subs, **kw):
        kw.setdefault("depth", depth)
        out.append(dict(dw=dw, aw=aw, subs=subs, **kw))

    for dw in (8, 16, 32):
        lanes = dw // 8
        aw = {8: 7, 16: 6, 32: 5}[dw]
        # SRAM + bridge over a CSR decoder; named / anonymous, both orders
        add(dw, aw, [S(("sram", 8, True), name="ram"), S(("csr", cdec1), name="periph")])
        add(dw, aw, [S(("csr", cdec1)), S(("sram", 8, True))])
        # explicit addresses (multiples of the window size), descending insertion order
        add(dw, aw, [S(("csr", cdec2, "io"), addr=64), S(("sram", 16, False), addr=16, name="rom"), S(("sram", 8, True), addr=0, name="ram")])
        # bridge directly over one peripheral, align_to between adds, decoder alignment
        add(dw, aw, [S(("csr", br_a)), S(("sram", 4 if lanes <= 4 else 8, True), align_to=5), S(("csr", ev3, "ev"), name=None)], align=3)
        if not quick or dw in (8, 32):
            add(dw, aw, [S(("sram", 8, True)), S(("csr", ("dec", 5, 0, [S(ev20, name="irq"), S(br_c)])), name="p")])
            # csr.Multiplexer used directly: under a decoder (two registers added after the multiplexer object was
            # made) and directly under the Wishbone bridge
            add(dw, aw, [S(("csr", ("dec", 5, 0, [S(mx_late, name="mx"), S(br_c)])), name="p"), S(("csr", mx_all), name="q"),
                         S(("sram", 8, True))], tag="mx_late")
        if not quick or dw in (8, 32):
            add(dw, aw, [S(("csr", br_wide), name="wide"), S(("sram", 8, True)), S(("csr", cdec7), name="seven")])
        if not quick or dw == 16:
            add(dw, aw + 1, [S(("sram", 8, True)), S(("csr", cdec_nested), name="n")])
            add(dw, aw, [S(("csr", gp)), S(("csr", br_c), name="c"), S(("sram", 8, True))])
    if not quick:
        add(32, 5, [S(("sram", 8, True), name="ram"), S(("csr", cdec1), name="periph")], all_sel=True)
        add(16, 6, [S(("csr", cdec2, "io"), addr=64), S(("sram", 16, False), addr=16, name="rom"), S(("sram", 8, True), addr=0, name="ram")], depth=4)
        # two writable memories next to each other and a bridge in between (anonymous bridge window)
        add(32, 6, [S(("sram", 16, True), name="a"), S(("csr", br_a)), S(("sram", 8, True), name="b", align_to=5)])
    for c in out:
        c.setdefault("depth", depth)
        if not quick and c["dw"] == 32:
            c["all_sel"] = True
    # back-to-back pairs of transfers (no idle cycle between the acknowledge and the next transfer)
    pairs = []
    for i, c in enumerate(out):
        if c.get("all_sel") and c["dw"] == 32 and quick:
            continue
        if quick and i % 3 != 0:
            continue
        pairs.append(dict(c, b2b=True, depth=1 if quick else 2, all_sel=False))
    twice = [dict(c, elab_twice=True) for c in out[1::5]]
    refusals = [dict(c, refusals=True) for c in out[2::5]]
    return out + pairs + twice + refusals


def run_config(cfg, tier, seed):
    res = explore_hw(build, Observer, cfg, tier, seed, max_states=2_500_000, max_seconds=900 if tier == "quick" else 5000)
    if res.get("refused") and "mx_late" in repr(cfg.get("tag", "")) and res.get("refusal", {}).get("where", "").split(":")[-1] in ("add_resource", "memory_map"):
        return res      # a multiplexer may freeze the map it is given: registers added afterwards are then refused (nothing to explore)
    if res.get("refused"):
        # the grammar only produces hierarchies the toolkit is supposed to accept: a refusal means the
        # grammar (or the toolkit's acceptance) changed, and nothing was explored for this hierarchy
        from ..common import ToolFailure
        raise ToolFailure(f"hierarchy refused by the library: {res.get('refusal')}")
    return res


def replay(data):
    return rederive(build, Observer, data["cfg"], data["trace"], None)


def main(tier, seed):
    t0 = time.time()
    results = run_configs(run_config, configs(tier), tier, seed)
    cov = aggregate(results)
    cov["exhaustive"] = False          # transaction depth is bounded: a prefix of the quiescent-state graph
    cov["transaction_depth"] = sorted({c["depth"] for c in configs(tier)})
    cov["rule"] = ("hierarchies from the grammar in configs(); per hierarchy every root word address x read/write x select masks "
                   "(single lanes, all lanes, two mixed masks; thorough: all masks for one hierarchy) as whole Wishbone transfers, BFS over "
                   "quiescent states to transaction depth 2 (thorough: 3 for one hierarchy)")
    return finish(PID, tier, seed, "model_checking", cov, ASSUMPTIONS, t0, results, min_explored=len(results) - sum(1 for c in configs(tier) if c.get("tag") == "mx_late"))


ASSUMPTIONS = [
    "Amaranth 0.5.10 front end, build_netlist and Simulator are the trusted base", "rst held at 0",
    "write data are address-derived byte tokens; pin / event / read-only register inputs are held at fixed non-zero patterns",
    "the initiator performs one transfer at a time, holds it until acknowledged or for ratio+6 cycles (horizon), then idles 3 cycles; "
    "configurations flagged b2b: pairs of transfers with no idle cycle in between (first transfer: first/last word of every leaf and "
    "hole, all lanes; second transfer: every address, direction and select mask)",
    "inside a Wishbone-to-CSR bridge's window the bridge acknowledges every transfer (C10 requires it): for holes there only "
    "'no leaf strobe, zero read data' is required; 'never acknowledged' applies to addresses no Wishbone window covers",
    "transaction depth bounded (configs explore a prefix of the quiescent-state graph; counted as capped)",
]
