"""C16 - GPIO pins follow their mode table, inputs are delayed exactly, pins independent.

(a) pin_count 1 (input_stages 0-3) and 2 (thorough): full cycle-level BFS of the real peripheral with a
    FREE CSR driver (all registers are single-chunk, so every access is a complete transaction) x all
    pin-input vectors x all values of the significant write-data bits.
(b) wider configurations (5 pins on an 8-bit bus, 9 pins on 8/16-bit buses: Mode and SetClr span
    several chunks): CSR-conforming driver with write-data tokens and a family of pin vectors; the BFS
    is run to a state/time cap and reported as not exhaustive.
Oracle: RefGPIO composed with RefCSR at the addresses the peripheral's memory map reports.
"""
import itertools
import time

from amaranth import Module

from ..netlist import Harness
from ..hw import explore_hw, aggregate, rederive
from ..common import run_configs, finish
from ..ref.csr import RefCSR
from ..ref.csrdrv import conforming_moves, full_value

PID = "C16"
REGS = ("Mode", "Input", "Output", "SetClr")


def build(cfg):
    from amaranth_soc import gpio
    n = cfg["pins"]
    p = gpio.Peripheral(pin_count=n, addr_width=cfg["aw"], data_width=cfg["dw"], input_stages=cfg["stages"])
    m = Module()
    m.submodules.gpio = p
    bus = p.bus
    inputs = [("addr", bus.addr), ("r_stb", bus.r_stb), ("w_stb", bus.w_stb), ("w_data", bus.w_data)]
    inputs += [(f"pin{k}", p.pins[k].i) for k in range(n)]
    probes = [("r_data", bus.r_data), ("alt_mode", p.alt_mode)]
    for k in range(n):
        probes += [(f"o{k}", p.pins[k].o), (f"oe{k}", p.pins[k].oe)]
    regs = {}
    for info in bus.memory_map.all_resources():
        regs[str(info.path[-1][-1])] = dict(start=info.start, end=info.end, width=info.resource.element.width,
                                            access=info.resource.element.access.value)
    return Harness(m, inputs, probes, dict(regs=regs, aw=bus.addr_width, pin_count=p.pin_count, stages=p.input_stages))


class Observer:
    """obs = (csr state, mode bits, out bits, input pipeline tuple)"""
    def __init__(self, cfg, h, comp):
        self.cfg = cfg
        self.n = n = cfg["pins"]
        self.dw = cfg["dw"]
        self.stages = cfg["stages"]
        regs = h.meta["regs"]
        self.meta_err = None
        want = dict(Mode=(2 * n, "rw"), Input=(n, "r"), Output=(n, "rw"), SetClr=(2 * n, "w"))
        if set(regs) != set(REGS) or any((regs[k]["width"], regs[k]["access"]) != want[k] for k in regs) \
                or h.meta["pin_count"] != n or h.meta["stages"] != self.stages:
            self.meta_err = f"memory map / attributes report {h.meta}"
            self.init = None
            return
        self.ref = RefCSR([(regs[r]["start"], regs[r]["end"], regs[r]["width"], "r" in regs[r]["access"],
                            "w" in regs[r]["access"]) for r in REGS], self.dw)
        ii, pi = comp.in_index, comp.probe_index
        self.ii, self.pi = ii, pi
        self.order = comp.in_names
        self.init = (RefCSR.INIT, 0, 0, (0,) * self.stages)
        aw = h.meta["aw"]
        mapped = set(self.ref.lut)
        self.unmapped = next((a for a in range((1 << aw) - 1, -1, -1) if a not in mapped), None)
        self.free = cfg["driver"] == "free"
        if cfg.get("pinv"):
            self.pinv = list(cfg["pinv"])
        else:
            self.pinv = list(range(1 << n))
        if self.free:
            sig = min(self.dw, 2 * n)
            wv = list(range(1 << sig))
            base = [(a, r, w, wd) for a in range(1 << aw) for r in (0, 1) for w in (0, 1) for wd in (wv if w else (0,))]
            self._letters = [self.mk(mv, pv) for mv in base for pv in self.pinv]
        else:
            self.wvals = list(cfg["wvals"])
            self._cache = {}

    def mk(self, mv, pv):
        addr, r, w, wd = mv
        d = dict(addr=addr, r_stb=r, w_stb=w, w_data=wd)
        for k in range(self.n):
            d[f"pin{k}"] = (pv >> k) & 1
        return tuple(d[nme] for nme in self.order)

    def write_script(self, reg_index, value, pins=0):
        """the bus cycles of one complete register write (ascending chunks) followed by one idle cycle"""
        s, e, w, rd, wr = self.ref.regs[reg_index]
        out = []
        for j in range(e - s):
            out.append(self.mk((s + j, 0, 1, (value >> (j * self.dw)) & ((1 << self.dw) - 1)), pins))
        out.append(self.mk((0, 0, 0, 0), pins))
        return out

    def prefixes(self):
        """Wide register files: the breadth-first budget alone barely completes one multi-chunk write, so the
        search is also started from states reached by complete Mode / Output writes (oracle checked on the way)."""
        if self.meta_err or self.free or not self.cfg.get("scripted"):
            return ()
        n = self.n
        pp = int("01" * n, 2)           # all push-pull
        od = int("10" * n, 2)           # all open-drain
        mix = int(("11100100" * n)[-2 * n:], 2)
        ones = (1 << n) - 1
        alt = int("10" * n, 2) & ones
        scripts = []
        for mode in (pp, od, mix):
            scripts.append(self.write_script(0, mode))
            scripts.append(self.write_script(0, mode) + self.write_script(2, ones, pins=alt))
            scripts.append(self.write_script(0, mode) + self.write_script(2, alt) + self.write_script(3, int("0110" * n, 2) & ((1 << (2 * n)) - 1)))
        return scripts

    def letters(self, obs):
        if self.meta_err:
            return [tuple(0 for _ in range(4 + self.n))]
        if self.free:
            return self._letters
        st = obs[0]
        key = (st[0] and st[0][:2], st[1] and st[1][:2])
        if key not in self._cache:
            moves = conforming_moves(self.ref, st, self.wvals, self.unmapped, misdirected=False, both=False)
            self._cache[key] = [self.mk(mv, pv) for mv in moves for pv in self.pinv]
        return self._cache[key]

    def observe(self, obs, letter, outs):
        if self.meta_err:
            return dict(msg=self.meta_err, signature=dict(kind="metadata")), obs
        st, mode, out, pipe = obs
        ii, pi, n = self.ii, self.pi, self.n
        addr, r, w, wd = letter[ii["addr"]], letter[ii["r_stb"]], letter[ii["w_stb"]], letter[ii["w_data"]]
        pins = 0
        for k in range(n):
            pins |= letter[ii[f"pin{k}"]] << k
        delayed = pipe[-1] if self.stages else pins
        vals = (mode, delayed, out, 0)
        exp_r_stb, exp_rd, exp_w, nst = self.ref.step(st, addr, r, w, wd, lambda k: vals[k])
        got = outs[pi["r_data"]]
        if exp_rd[0] == "zero" and got != 0:
            return dict(msg=f"bus r_data={got:#x}, expected zero", signature=dict(kind="oracle", what="r_data_zero")), obs
        if exp_rd[0] == "val" and got != exp_rd[1]:
            return dict(msg=f"bus r_data={got:#x}, expected {exp_rd[1]:#x} (mode={mode:#b} input={delayed:#b} output={out:#b})",
                        signature=dict(kind="oracle", what="r_data")), obs
        alt = 0
        for k in range(n):
            md = (mode >> (2 * k)) & 3
            ob = (out >> k) & 1
            if md == 2:
                eo, eoe = 0, 1 - ob
            else:
                eo, eoe = ob, 1 if md == 1 else 0
            if md == 3:
                alt |= 1 << k
            # the property constrains whether the pin is driven and, when it is, with what; the level on `o`
            # of a disabled pin is not observable at the pad
            if outs[pi[f"oe{k}"]] != eoe or (eoe and outs[pi[f"o{k}"]] != eo):
                return dict(msg=f"pin {k} in mode {md} with output bit {ob}: o={outs[pi[f'o{k}']]} oe={outs[pi[f'oe{k}']]}, expected "
                                f"{'o=' + str(eo) + ' ' if eoe else ''}oe={eoe}",
                            signature=dict(kind="oracle", what="pin_drive", mode=md)), obs
        if outs[pi["alt_mode"]] != alt:
            return dict(msg=f"alt_mode={outs[pi['alt_mode']]:#b}, expected {alt:#b} (mode={mode:#b})",
                        signature=dict(kind="oracle", what="alt_mode")), obs
        nmode, nout = mode, out
        if exp_w is not None:
            k, chunks = exp_w
            complete, v = full_value(self.ref, k, chunks)
            if not complete:
                # free driver on single-chunk registers and the conforming driver always complete
                return dict(msg="internal: incomplete write transaction reached a register"), obs
            if k == 0:
                nmode = v
            elif k == 2:
                nout = v
            elif k == 3:
                for p in range(n):
                    code = (v >> (2 * p)) & 3
                    if code == 1:
                        nout |= 1 << p
                    elif code == 2:
                        nout &= ~(1 << p)
        npipe = ((pins,) + pipe[:-1]) if self.stages else pipe
        return None, (nst, nmode, nout, npipe)


def configs(tier):
    quick = tier == "quick"
    out = []
    for stages in (0, 1, 2, 3):
        out.append(dict(pins=1, aw=2, dw=8, stages=stages, driver="free"))
    out.append(dict(pins=1, aw=3, dw=16, stages=1, driver="free"))
    out.append(dict(pins=1, aw=2, dw=8, stages=1, driver="free", elab_twice=True))
    # two pins: free driver over a thinned write alphabet in quick, complete in thorough
    if quick:
        out.append(dict(pins=2, aw=2, dw=8, stages=0, driver="conf", wvals=(0, 0xF, 0x6, 0x9, 0x1, 0x3, 0xC), pinv=(0, 1, 2, 3)))
        out.append(dict(pins=2, aw=2, dw=8, stages=1, driver="conf", wvals=(0, 0xF, 0x6, 0x9), pinv=(0, 1, 2)))
        out.append(dict(pins=2, aw=2, dw=8, stages=2, driver="conf", wvals=(0, 0xD, 0x6), pinv=(0, 2)))
        out.append(dict(pins=2, aw=2, dw=8, stages=3, driver="conf", wvals=(0, 0x7), pinv=(0, 1)))
    else:
        out.append(dict(pins=2, aw=2, dw=8, stages=0, driver="free"))
        out.append(dict(pins=2, aw=2, dw=8, stages=1, driver="free"))
        out.append(dict(pins=2, aw=2, dw=8, stages=2, driver="conf", wvals=(0, 0xF, 0x6, 0x9, 0xD), pinv=(0, 1, 2, 3)))
        out.append(dict(pins=2, aw=2, dw=8, stages=3, driver="conf", wvals=(0, 0xF, 0x6, 0x9), pinv=(0, 1, 2)))
    # wider: multi-chunk Mode / SetClr (conforming driver, capped)
    # write tokens: 0x1B = modes 3,2,1,0 / 0xE4 = 0,1,2,3 / 0x66, 0x99 = codes 2,1,2,1 and 1,2,1,2 per chunk, so every
    # pin - also those in the last, partial chunk - sees push-pull, open-drain, set and clear
    wide = [dict(pins=4, aw=2, dw=8, stages=0, driver="conf", wvals=(0, 0xFF, 0x1B, 0xE4, 0x66), pinv=(0, 0xF, 0x5, 0x9)),
            dict(pins=5, aw=3, dw=8, stages=1, driver="conf", wvals=(0, 0xFF, 0x1B, 0x66, 0x99), pinv=(0, 0x1F, 0x11, 0x0A)),
            # more pins than data bits, WITH synchroniser stages (Input spans two chunks)
            dict(pins=9, aw=4, dw=8, stages=1, driver="conf", wvals=(0, 0xFF, 0x9C, 0x66, 0x99), pinv=(0, 0x1FF, 0x101, 0x0AA)),
            dict(pins=10, aw=4, dw=8, stages=2, driver="conf", wvals=(0, 0xFF, 0x66, 0x99), pinv=(0, 0x3FF, 0x200, 0x155)),
            dict(pins=9, aw=3, dw=16, stages=2, driver="conf", wvals=(0, 0xFFFF, 0x6C93, 0x9966), pinv=(0, 0x1FF, 0x0AA))]
    for c in wide:
        c["capped_ok"] = True
    # each wide configuration twice: breadth-first from reset, and from the scripted (post-write) states
    out += wide + [dict(c, scripted=True) for c in wide]
    return out


def run_config(cfg, tier, seed):
    # configurations flagged capped_ok are explored breadth-first up to a STATE budget (deterministic); the
    # wall-clock limit is only a safety net far above what the budget needs
    cap = dict(max_states=70_000 if tier == "quick" else 1_500_000, max_seconds=900 if tier == "quick" else 7200)
    if not cfg.get("capped_ok"):
        cap = dict(max_states=4_000_000, max_seconds=3000)
    return explore_hw(build, Observer, cfg, tier, seed, **cap)


def replay(data):
    return rederive(build, Observer, data["cfg"], data["trace"], None)


def main(tier, seed):
    t0 = time.time()
    results = run_configs(run_config, configs(tier), tier, seed)
    cov = aggregate(results)
    cov["rule"] = ("pin_count 1 (stages 0-3; 8- and 16-bit bus) and 2: full BFS; pin_count 4/5/9 (multi-chunk Mode and SetClr): "
                   "conforming driver with write-data tokens, BFS to a state/time cap (not exhaustive, counted in configs_capped)")
    return finish(PID, tier, seed, "model_checking", cov, ASSUMPTIONS, t0, results, min_explored=int(0.9 * len(results)))


ASSUMPTIONS = [
    "Amaranth 0.5.10 front end, build_netlist and Simulator are the trusted base", "rst held at 0",
    "free CSR driver for single-chunk register files; protocol-conforming driver where registers span several chunks",
    "register write timing as the CSR bus documents it (a register sees its write one cycle after the last chunk is written)",
    "the level on `o` of a pin whose output is disabled is not checked (not observable at the pad)",
    "configurations flagged capped_ok explore a prefix of the reachable graph (breadth-first to the cap) with token alphabets",
]
