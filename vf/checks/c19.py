"""C19 - every accepted component elaborates, terminates, and does so repeatably.

Finite grids of constructor parameters (valid AND invalid) for every component class.  For each
trial: construction either succeeds or is a *refusal* (ValueError/TypeError raised by a ``raise``
statement of amaranth_soc / amaranth naming that class); every accepted instance goes through the
history  Q E Q E E Q  (E = Fragment.get + build_netlist, Q = metadata queries) under a SIGALRM
watchdog: every E must succeed, all three netlists must be identical, all metadata snapshots equal.
No state graph is explored: claimed as exhaustive exploration of the stated grids.
"""
import itertools
import time
import warnings

from ..common import run_configs, finish, is_refusal, describe_exc, Watchdog

PID = "C19"
WATCHDOG_S = 90      # the slowest accepted trial takes < 3 s on this machine; per elaboration step, not per trial
FEATS = ("err", "rty", "stall", "lock", "cti", "bte")


def _shapes():
    from amaranth import unsigned, signed
    from amaranth.lib import enum, data

    class E(enum.Enum, shape=unsigned(2)):
        A = 0
        B = 1

    class F(enum.Flag, shape=unsigned(2)):
        A = 1
        B = 2

    return {"0": 0, "1": 1, "3": 3, "s2": signed(2), "enum": E, "flag": F, "range5": range(5),
            "struct": data.StructLayout({"a": 1, "b": 2}), "neg": -1, "str": "x"}


def make(kind, p):
    """-> (elaboratable, [objects with memory maps / signatures to snapshot])"""
    from amaranth import Module
    from amaranth.lib import wiring
    from amaranth.lib.wiring import Out
    from amaranth.utils import exact_log2
    from amaranth_soc import csr, wishbone, event, gpio
    from amaranth_soc.csr import action
    from amaranth_soc.csr.wishbone import WishboneCSRBridge
    from amaranth_soc.csr.event import EventMonitor
    from amaranth_soc.wishbone.sram import WishboneSRAM
    from amaranth_soc.memory import MemoryMap
    from ..gen.muxlayouts import make_map, stub_register

    class RWreg(csr.Register, access="rw"):
        def __init__(self, w):
            super().__init__({"a": csr.Field(action.RW, w)})

    if kind == "mux_layout":
        mm, _ = make_map(p)
        x = csr.Multiplexer(mm, shadow_overlaps=p["ov"])
        return x, [x.bus]
    if kind == "mux":
        regs, aw, dw, al, so = p
        mm = MemoryMap(addr_width=aw, data_width=dw, alignment=al)
        for i, (w, acc, addr, size) in enumerate(regs):
            mm.add_resource(stub_register(w, acc), name=f"r{i}", addr=addr, size=size)
        x = csr.Multiplexer(mm, shadow_overlaps=so)
        return x, [x.bus]
    if kind == "mux_many":
        n, w, so = p
        mm = MemoryMap(addr_width=8, data_width=8)
        for i in range(n):
            mm.add_resource(stub_register(8 * w, "rw" if i % 3 else "r"), name=f"r{i}", size=w)
        mm.add_resource(stub_register(8 * 64, "rw"), name="wide", size=64)          # one register of 64 bus words
        x = csr.Multiplexer(mm, shadow_overlaps=so)
        return x, [x.bus]
    if kind == "bridge":
        import contextlib
        b = csr.Builder(addr_width=4, data_width=8)
        for i, sc in enumerate(p):
            with contextlib.ExitStack() as es:
                for s in sc:
                    es.enter_context(b.Cluster(s) if isinstance(s, str) else b.Index(s))
                b.add(f"r{i}", RWreg(8 + 4 * i))
        x = csr.Bridge(b.as_memory_map())
        return x, [x.bus]
    if kind == "bridge_names":
        # register names whose flattened forms coincide with each other or with the bridge's own submodule
        b = csr.Builder(addr_width=5, data_width=8)
        for i, path in enumerate(p):
            import contextlib
            with contextlib.ExitStack() as es:
                for s in path[:-1]:
                    es.enter_context(b.Cluster(s) if isinstance(s, str) else b.Index(s))
                b.add(path[-1], RWreg(8))
        x = csr.Bridge(b.as_memory_map())
        return x, [x.bus]
    if kind == "register_paths":
        def nest(path, leaf):
            return leaf if not path else {path[0]: nest(path[1:], leaf)}
        fields = {}
        for path in p:
            cur = fields
            for s in path[:-1]:
                cur = cur.setdefault(s, {})
            cur[path[-1]] = csr.Field(action.RW, 2)
        x = csr.Register(fields, access="rw")
        return x, [x]
    if kind == "eventmonitor":
        k, dw, al, trg = p
        em = event.EventMap()
        for i in range(k):
            em.add(event.Source(trigger=("level", "rise", "fall")[i % 3], path=(f"s{i}",)))
        x = EventMonitor(em, trigger=trg, data_width=dw, alignment=al)
        return x, [x.bus]
    if kind == "monitor":
        em = event.EventMap()
        for i in range(p[0]):
            em.add(event.Source(trigger=p[1], path=(f"s{i}",)))
        x = event.Monitor(em, trigger=p[1])
        return x, [x]
    if kind == "wbcsr":
        cdw, wdw, caw, name = p
        mm = MemoryMap(addr_width=caw, data_width=cdw)
        mm.add_resource(stub_register(cdw, "rw"), name="r", size=1)
        mux = csr.Multiplexer(mm)
        x = WishboneCSRBridge(mux.bus, data_width=wdw, name=name)
        m = Module()
        m.submodules.mux = mux
        m.submodules.br = x
        m._vf_port_components = [x]
        return m, [x.wb_bus, mux.bus]
    if kind == "sram":
        size, dw, g, wr, init = p
        x = WishboneSRAM(size=size, data_width=dw, granularity=g, writable=wr, init=init)
        return x, [x.wb_bus]
    if kind == "gpio":
        n, aw, dw, st = p
        x = gpio.Peripheral(pin_count=n, addr_width=aw, data_width=dw, input_stages=st)
        return x, [x.bus]
    if kind == "arbiter":
        N, af, iff, ag, ig, aw, dw = p
        x = wishbone.Arbiter(addr_width=aw, data_width=dw, granularity=ag, features=af)
        for i in range(N):
            x.add(wishbone.Interface(addr_width=aw, data_width=dw, granularity=ig, features=iff, path=(f"i{i}",)))
        return x, [x]
    if kind == "wbdec":
        daw, ddw, dg, df, subs, sf = p

        def wsub(aw, dw, g, fe, k):
            s = wishbone.Interface(addr_width=aw, data_width=dw, granularity=g, features=fe, path=(f"s{k}",))
            s.memory_map = MemoryMap(addr_width=max(1, aw + exact_log2(dw // g)), data_width=g)
            return s
        x = wishbone.Decoder(addr_width=daw, data_width=ddw, granularity=dg, features=df)
        for k, (saw, skind) in enumerate(subs):
            if skind is None:
                x.add(wsub(saw, ddw, dg, sf, k))
            else:
                x.add(wsub(saw, dg, dg, sf, k), sparse=True)
        return x, [x.bus]
    if kind == "csrdec":
        daw, dw, al, subs = p
        x = csr.Decoder(addr_width=daw, data_width=dw, alignment=al)
        for k, saw in enumerate(subs):
            s = csr.Interface(addr_width=saw, data_width=dw, path=(f"s{k}",))
            s.memory_map = MemoryMap(addr_width=saw, data_width=dw)
            x.add(s)
        return x, [x.bus]
    if kind == "after_refusal":
        # a mutator call that the library refuses (the user catches the error and carries on) somewhere in the
        # construction history; the component that results is an accepted one and must elaborate like any other
        comp, how, pos, n = p

        def attempt(fn):
            try:
                fn()
            except (ValueError, TypeError):
                pass

        if comp == "wbdec":
            def wsub(aw, dw, k, g=8):
                s = wishbone.Interface(addr_width=aw, data_width=dw, granularity=g, path=(f"s{k}",))
                s.memory_map = MemoryMap(addr_width=max(1, aw + exact_log2(dw // g)), data_width=g)
                return s
            x = wishbone.Decoder(addr_width=4, data_width=16, granularity=8)
            for k in range(n + 1):
                if k == pos:
                    bad = {"overlap": lambda: x.add(wsub(1, 16, 90), addr=0),
                           "oob": lambda: x.add(wsub(1, 16, 91), addr=1 << 5),
                           "name": lambda: x.add(wsub(1, 16, 92), name="w0"),
                           "width": lambda: x.add(wsub(1, 32, 93, 8)),
                           "badtype": lambda: x.add("bus")}[how]
                    attempt(bad)
                if k < n:
                    x.add(wsub(1, 16, k), name=f"w{k}")
            return x, [x.bus]
        if comp == "csrdec":
            def csub(aw, dw, k):
                s = csr.Interface(addr_width=aw, data_width=dw, path=(f"s{k}",))
                s.memory_map = MemoryMap(addr_width=aw, data_width=dw)
                return s
            x = csr.Decoder(addr_width=5, data_width=8)
            for k in range(n + 1):
                if k == pos:
                    bad = {"overlap": lambda: x.add(csub(2, 8, 90), addr=0),
                           "oob": lambda: x.add(csub(2, 8, 91), addr=1 << 5),
                           "name": lambda: x.add(csub(2, 8, 92), name="w0"),
                           "width": lambda: x.add(csub(2, 16, 93)),
                           "badtype": lambda: x.add("bus")}[how]
                    attempt(bad)
                if k < n:
                    x.add(csub(2, 8, k), name=f"w{k}")
            return x, [x.bus]
        if comp == "arbiter":
            x = wishbone.Arbiter(addr_width=3, data_width=16, granularity=8, features=("err",))
            for k in range(n + 1):
                if k == pos:
                    bad = {"width": lambda: x.add(wishbone.Interface(addr_width=3, data_width=32, granularity=8, path=("b",))),
                           "addr": lambda: x.add(wishbone.Interface(addr_width=4, data_width=16, granularity=8, path=("b",))),
                           "gran": lambda: x.add(wishbone.Interface(addr_width=4, data_width=16, granularity=16, path=("b",))),
                           "feature": lambda: x.add(wishbone.Interface(addr_width=3, data_width=16, granularity=8, features=("rty",), path=("b",))),
                           "badtype": lambda: x.add("bus")}[how]
                    attempt(bad)
                if k < n:
                    x.add(wishbone.Interface(addr_width=3, data_width=16, granularity=8, features=("err",), path=(f"i{k}",)))
            return x, [x]
        if comp == "bridge":
            b = csr.Builder(addr_width=4, data_width=16, granularity=8)
            regs = [RWreg(8 + 4 * k) for k in range(n)]
            for k in range(n + 1):
                if k == pos:
                    bad = {"dup": lambda: b.add("again", regs[0]),
                           "badtype": lambda: b.add("q", "reg"),
                           "badname": lambda: b.add("", RWreg(8)),
                           "badoffset": lambda: b.add("q", RWreg(8), offset=3),
                           "negoffset": lambda: b.add("q", RWreg(8), offset=-2)}[how]
                    attempt(bad)
                if k < n:
                    b.add(f"r{k}", regs[k])
            x = csr.Bridge(b.as_memory_map())
            return x, [x.bus]
        if comp == "monitor":
            em = event.EventMap()
            for k in range(n + 1):
                if k == pos:
                    attempt({"badtype": lambda: em.add("src"), "none": lambda: em.add(None)}[how])
                if k < n:
                    em.add(event.Source(trigger=("level", "rise", "fall")[k % 3], path=(f"s{k}",)))
            x = event.Monitor(em) if how == "badtype" else EventMonitor(em, data_width=8)
            return x, [x] if how == "badtype" else [x.bus]
        if comp == "mux":
            # the multiplexer does not freeze its map: registers may still be added (or refused) after it exists
            mm = MemoryMap(addr_width=3, data_width=8)
            x = None
            for k in range(n + 1):
                if k == pos:
                    x = csr.Multiplexer(mm)
                    attempt({"overlap": lambda: mm.add_resource(stub_register(8, "rw"), name="o", addr=0, size=1),
                             "oob": lambda: mm.add_resource(stub_register(8, "rw"), name="o", addr=8, size=1),
                             "name": lambda: mm.add_resource(stub_register(8, "rw"), name="r0", size=1),
                             "none": lambda: None}[how])
                if k < n:
                    mm.add_resource(stub_register(8 + 8 * (k % 2), "rw"), name=f"r{k}", size=1 + (k % 2))
            return x, [x.bus]
        if comp == "sram":
            x = WishboneSRAM(size=4, data_width=16, granularity=8, init=(1, 2))
            attempt({"elem": lambda: setattr(x, "init", [3, "x"]), "long": lambda: setattr(x, "init", [1, 2, 3]),
                     "badtype": lambda: setattr(x, "init", 5)}[how])
            return x, [x.wb_bus]
        raise KeyError(comp)
    if kind == "register":
        racc, a1, a2, s1, s2, form = p
        sh = _shapes()
        f1, f2 = csr.Field(getattr(action, a1), sh[s1]), csr.Field(getattr(action, a2), sh[s2])
        fields = {"a": f1, "b": f2} if form == "dict" else [f1, f2] if form == "list" else {"x": [f1, {"y": f2}]}
        x = csr.Register(fields, access=racc)
        return x, [x]
    if kind == "action":
        a, s, init = p
        sh = _shapes()
        cls = getattr(action, a)
        x = cls(sh[s], init=init) if (a in ("RW", "RW1C", "RW1S") and init is not None) else cls(sh[s])
        return x, [x]
    raise KeyError(kind)


def ports_of(x):
    """Top-level ports for elaboration: the signals of the component's own signature (with no ports at all
    every input would be a constant and e.g. two swapped inputs could not show in the netlist)."""
    from amaranth.lib import wiring
    from amaranth.hdl import Value
    comps = [x] if isinstance(x, wiring.Component) else getattr(x, "_vf_port_components", [])
    ports = []
    for c in comps:
        for path, member, sig in c.signature.flatten(c):
            v = Value.cast(sig)
            if len(v):
                ports.append(v)
    return ports


def snapshot(objs):
    out = []
    for o in objs:
        try:
            mm = o.memory_map
        except AttributeError:
            mm = None
        except Exception:
            mm = None
        if mm is not None:
            out.append([(tuple(map(tuple, i.path)), i.start, i.end, i.width) for i in mm.all_resources()])
            out.append([(s, e, r) for _, _, (s, e, r) in mm.windows()])
            out.append([(tuple(n), s, e) for _, n, (s, e) in mm.resources()])
        out.append(repr(o.signature))
    return repr(out)


def trial(cfg, tier, seed):
    from amaranth.hdl import Fragment
    from amaranth.hdl._ir import build_netlist
    kind, p = cfg
    warnings.simplefilter("ignore")

    def viol(stage, e):
        d = describe_exc(e) if isinstance(e, BaseException) else dict(type="mismatch", message=str(e), where="")
        return dict(violation=dict(kind="c19", stage=stage, err=dict(stage=stage, **d),
                                   signature=dict(kind=stage, component=kind, type=d["type"])))
    try:
        if True:
            try:
                with Watchdog(WATCHDOG_S):
                    x, objs = make(kind, p)
            except Watchdog.Timeout as e:
                return viol("construct_timeout", e)
            except BaseException as e:
                if is_refusal(e):
                    return dict(refused=True)
                return viol("construct", e)
            q0 = snapshot(objs)
            nls = []
            for n in range(3):
                try:
                    with Watchdog(WATCHDOG_S):
                        nl = build_netlist(Fragment.get(x, None), ports=ports_of(x))
                    # canonical text: the cells plus the name -> nets table (what the RTLIL back end would print)
                    nls.append(repr(nl) + "\n" + "\n".join(sorted(f"{sig.name} {val!r}" for sig, val in nl.signals.items())))
                except Watchdog.Timeout as e:
                    return viol(f"elaborate_timeout", e)
                except BaseException as e:
                    if n == 0 and is_refusal(e):
                        # refused at elaboration with a descriptive error: allowed by the property
                        return dict(refused=True, at="elaborate")
                    return viol("elaborate" if n == 0 else "re_elaborate", e)
                if n == 0:
                    q1 = snapshot(objs)
            q2 = snapshot(objs)
    except Watchdog.Timeout as e:
        return viol("timeout", e)
    if not (nls[0] == nls[1] == nls[2]):
        which = 2 if nls[0] != nls[1] else 3
        return viol("netlist_differs", f"elaboration {which} yields different hardware than elaboration 1 ({len(nls[0])} vs {len(nls[which - 1])} chars)")
    if not (q0 == q1 == q2):
        return viol("metadata_changed", "memory map / signature changed across elaborations")
    return dict(ok=True, size=len(nls[0]))


def configs(tier):
    from ..gen.muxlayouts import layouts
    quick = tier == "quick"
    T = []
    for k, lay in enumerate(layouts(tier)):
        # every layout with a finite sharing limit (the balancing code path), a third of the others
        if not quick or lay["ov"] is not None or k % 3 == 0:
            T.append(("mux_layout", lay))
    regopts = [(w, acc, addr, size) for w in (0, 1, 3) for acc in ("r", "w", "rw") for addr in (None, 0, 1, 2, 3, 5) for size in (1, 2, 3)]
    for al in (0, 1):
        for so in (None, 0, 1, 2):
            for a in regopts[::(11 if quick else 7)]:
                for b in regopts[::(7 if quick else 5)]:
                    T.append(("mux", ((a, b), 3, 2, al, so)))
    # many registers / many bus words (64 is where a radix-4 reduction tree first has three full levels)
    for n, w, so in ((17, 1, None), (63, 1, None), (64, 1, None), (65, 1, 0), (100, 1, None)):
        T.append(("mux_many", (n, w, so)))
    for so in (-1, "x", 1.5, 3, 7, True):
        for a, b in ((regopts[0], regopts[20]), (regopts[37], regopts[5])):
            T.append(("mux", ((a, b), 3, 2, 0, so)))
    for sc in itertools.product([(), ("c",), (0,), ("c", 1), (2, "d")], repeat=2):
        T.append(("bridge", sc))
    name_sets = [(("a", "x", "r"), ("b", "x", "r")), (("rx", 0, "ctrl"), ("tx", 0, "ctrl"), ("rx", 1, "ctrl")),
                 (("u0", "irq", "en"), ("u1", "irq", "en"), ("u0", "irq", "st"), ("u1", "dma", "en")), (("mux",),), (("a", "b"), ("a__b",)), (("a__b",), ("a", "b")), (("a", "b"), ("a__b",), ("a__b__2",), ("mux",)),
                 ((0, "x"), ("0__x",)), (("a", 1, "r"), ("a__1", "r"), ("a", "1__r")), (("bridge",), ("bus",), ("element",)),
                 (("a",), ("b",)), (("x", "mux"), ("mux", "x"))]
    for ns in name_sets:
        T.append(("bridge_names", ns))
        T.append(("register_paths", tuple(tuple(str(s) for s in path) for path in ns)))
    for k in range(0, 6):
        for dw in (1, 2, 3, 8, 0):
            for al in (0, 1, 2, 3) if not quick else (0, 1, 2):
                for trg in ("level", "rise", "fall"):
                    T.append(("eventmonitor", (k, dw, al, trg)))
    for k, dw, al in ((17, 8, 1), (20, 8, 1), (24, 8, 2), (33, 8, 1), (65, 32, 1), (9, 2, 1), (12, 3, 2)):
        T.append(("eventmonitor", (k, dw, al, "level")))
    for k in range(4):
        for trg in ("level", "rise", "bad"):
            T.append(("monitor", (k, trg)))
    for cdw in (8, 16, 32, 64, 12):
        for wdw in (8, 16, 32, 64, 24, 128, None):
            for caw in (1, 2, 3, 4):
                for name in (None, "x", ("a", 0)):
                    T.append(("wbcsr", (cdw, wdw, caw, name)))
    for size in (1, 2, 4, 8, 3, 0):
        for dw in (8, 16, 32, 64, 24):
            for g in (None, 8, 16, 32, 64):
                for wr in (True, False):
                    for init in ((), (1,), (1, 2, 3, 4, 5, 6, 7, 8, 9)):
                        T.append(("sram", (size, dw, g, wr, init)))
    for n in (1, 2, 4, 5, 8, 9, 17, 0):
        for aw in (1, 2, 3, 4):
            for dw in (8, 16, 32, 12):
                for st in (0, 1, 3, -1):
                    if quick and (n in (8, 17) or st == 1):
                        continue
                    T.append(("gpio", (n, aw, dw, st)))
    feats = [(), ("lock",), ("stall",), ("err", "rty"), FEATS, ("cti",), ("bte",)]
    for N in range(0, 5):
        for af in feats:
            for iff in feats:
                for ag, ig in ((8, 8), (8, 16), (16, 8), (None, None)):
                    for aw in (0, 1, 3):
                        if quick and (N == 4 or (aw == 1 and N > 1)):
                            continue
                        T.append(("arbiter", (N, af, iff, ag, ig, aw, 16)))
    sub_opts = [(0, None), (1, None), (2, None), (1, "sparse")]
    sub_lists = [(a,) for a in sub_opts] + list(itertools.product(sub_opts, repeat=2))
    n = 0
    for daw in (0, 1, 2, 4):
        for ddw, dg in ((8, 8), (16, 8), (32, 8), (32, 16), (64, 64)):
            for df in feats:
                for subs in sub_lists:
                    for sf in (df, (), ("cti",), ("bte", "lock")):
                        n += 1
                        if quick and len(subs) == 2 and n % 3:
                            continue
                        T.append(("wbdec", (daw, ddw, dg, df, subs, sf)))
    for daw in (1, 2, 4):
        for dw in (1, 2, 8):
            for al in (0, 1, 2):
                for subs in itertools.product((1, 2, 3), repeat=2):
                    T.append(("csrdec", (daw, dw, al, subs)))
    for comp, hows, ns in (("wbdec", ("overlap", "oob", "name", "width", "badtype"), (1, 2)),
                           ("csrdec", ("overlap", "oob", "name", "width", "badtype"), (1, 2)),
                           ("arbiter", ("width", "addr", "gran", "feature", "badtype"), (1, 2, 3)),
                           ("bridge", ("dup", "badtype", "badname", "badoffset", "negoffset"), (1, 2)),
                           ("monitor", ("badtype", "none"), (0, 2)),
                           ("mux", ("overlap", "oob", "name", "none"), (1, 3)),
                           ("sram", ("elem", "long", "badtype"), (0,))):
        for how in hows:
            for n in ns:
                for pos in range(n + 1):
                    if pos == 0 and how in ("name", "dup", "overlap"):
                        continue            # nothing to collide with yet
                    T.append(("after_refusal", (comp, how, pos, n)))
    acts = ["R", "W", "RW", "RW1C", "RW1S", "ResRAW0", "ResR0WA"]
    shp = ["0", "1", "3", "s2", "enum"]
    for racc in ("r", "w", "rw"):
        for a1, a2 in itertools.product(acts, repeat=2):
            for s1, s2 in itertools.product(shp, repeat=2):
                for form in ("dict", "list", "nested"):
                    if quick and (s1 != s2 and form != "list"):
                        continue
                    T.append(("register", (racc, a1, a2, s1, s2, form)))
    for a in acts + ["ResRAWL", "ResR0W0"]:
        for s in ("0", "1", "3", "s2", "enum", "flag", "range5", "struct", "neg", "str"):
            for init in (None, 0, 1):
                T.append(("action", (a, s, init)))
    return T


def replay(data):
    cfg = data["cfg"]

    def tup(x):
        return tuple(tup(y) for y in x) if isinstance(x, list) else x
    kind, p = cfg
    p = p if isinstance(p, dict) else tup(p)
    r = trial((kind, p), "quick", 0)
    v = r.get("violation")
    return (v["err"], v["stage"]) if v else (None, None)


def main(tier, seed):
    t0 = time.time()
    cfgs = configs(tier)
    results = run_configs(trial, cfgs, tier, seed)
    per_kind = {}
    for r in results:
        k = r["cfg"][0]
        d = per_kind.setdefault(k, dict(trials=0, elaborated=0, refused=0, violations=0))
        d["trials"] += 1
        d["elaborated"] += 1 if r.get("ok") else 0
        d["refused"] += 1 if r.get("refused") else 0
        d["violations"] += 1 if r.get("violation") else 0
    ok = sum(d["elaborated"] for d in per_kind.values())
    cov = dict(evaluations=len(cfgs), distinct_nontrivial=ok, per_component=per_kind,
               elaborations=3 * ok, configs_refused=sum(d["refused"] for d in per_kind.values()), exhaustive=True,
               rule=("one trial per (component class, parameter tuple), all distinct; non-trivial = accepted by the constructor and "
                     "elaborated three times with identical netlists and unchanged metadata"),
               samples=[dict(trial=["wbdec", [0, 8, 8, [], [[0, None]], []]], history="Q E Q E E Q"),
                        dict(trial=["mux_layout", "registers at 2..3 and 3..5, shadow_overlaps=0"], history="Q E Q E E Q")])
    return finish(PID, tier, seed, "exploration", cov, ASSUMPTIONS, t0, results, min_explored=int(0.35 * len(results)))


ASSUMPTIONS = [
    "parameter grids are bounded (see configs()); 'descriptive refusal' is decided mechanically: ValueError/TypeError whose innermost "
    "frame is a raise statement in amaranth_soc or amaranth that names the class raised",
    "netlists are compared through their canonical text (NIR cells + signal-name table, i.e. the information the RTLIL back end "
    "prints - the property's observation point is the RTLIL text of successive elaborations); 'same hardware' = identical text",
    f"non-termination is approximated by a {WATCHDOG_S}s watchdog per trial",
]
