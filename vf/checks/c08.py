"""C08 - Wishbone arbiter: one owner at a time, isolated, never pre-empted mid-cycle.

Full BFS over the real arbiter netlist's states with a free driver: every (cyc, stb, lock) per
initiator x token phase (address/data/select/we/cti/bte tokens, distinct per initiator) x every
(ack, err, rty, stall) from the target.  The owner of a state is INFERRED from behaviour (the unique
initiator whose signals the shared bus carries), never read from a grant signal.
"""
import itertools
import time

from ..hw import explore_hw, aggregate, rederive
from ..common import run_configs, finish
from .arbcommon import build, ArbModel, configs as arb_configs, phases_for

PID = "C08"


class Observer(ArbModel):
    check_next_owner = False

    def __init__(self, cfg, h, comp):
        super().__init__(cfg, h, comp)
        self.init = 0
        ctl = self.ctl_vectors()
        resp = self.resp_vectors()
        rej = (0, 1) if self.rejected else (0,)
        nph = phases_for(self.n)
        if len(ctl) * len(resp) <= 30000:
            phases = range(nph)
            self._letters = [self.letter(c, p, r, j) for c in ctl for p in phases for r in resp for j in rej]
        else:
            # many initiators: the full control product with one token phase (state exploration, control
            # isolation, no pre-emption) + every token phase with "all request" / "one requests" controls
            quiet, loud = resp[0], resp[-1]
            ack_only = tuple(1 if k == 0 else 0 for k in range(4))
            self._letters = [self.letter(c, 2, r, j) for c in ctl for r in (quiet, ack_only, loud) for j in rej]
            some = [c for c in ctl if sum(x[0] for x in c) in (1, self.n) and all(x[1] == x[0] for x in c)]
            self._letters += [self.letter(c, p, r, j) for c in some for p in range(nph) for r in resp for j in rej]
        self.n_letters = len(self._letters)

    def letters(self, obs):
        return self._letters

    def probe_letters(self):
        ctl = tuple((1, 1, 1 if "lock" in self.ifeat[k] else 0) for k in range(self.n))
        return [self.letter(ctl, p, (0, 0, 0, 0), j) for p in range(2, phases_for(self.n)) for j in ((0, 1) if self.rejected else (0,))]

    def observe(self, obs, letter, outs, hw, hw2):
        pi, ii = self.pi, self.ii
        if self.missing:
            return dict(msg=self.missing[0], signature=dict(kind="metadata", what="port_missing")), 0
        owner = self.owner_of(hw)
        if owner is None:
            return dict(msg="no unique initiator owns the shared bus in this state (zero or several candidates)",
                        signature=dict(kind="oracle", what="owner")), 0
        exp = self.expected_bus(owner, letter)
        for nme, v in exp.items():
            got = outs[pi[f"t_{nme}"]]
            if got != v:
                return dict(msg=f"shared bus {nme}={got:#x} but owner {owner} drives {v:#x}",
                            signature=dict(kind="oracle", what=f"bus_{nme}")), 0
        t_ack = letter[ii["t_ack"]]
        for k in range(self.n):
            f = self.ifeat[k]
            if k == owner:
                e = dict(ack=t_ack)
                if t_ack:       # read data is only meaningful together with the acknowledge
                    e["dat_r"] = letter[ii["t_dat_r"]]
                if "err" in f:
                    e["err"] = letter[ii["t_err"]] if "err" in self.afeat else 0
                if "rty" in f:
                    e["rty"] = letter[ii["t_rty"]] if "rty" in self.afeat else 0
                if "stall" in f:
                    e["stall"] = letter[ii["t_stall"]] if "stall" in self.afeat else 1 - t_ack
            else:
                e = dict(ack=0)
                if "err" in f:
                    e["err"] = 0
                if "rty" in f:
                    e["rty"] = 0
                if "stall" in f:
                    e["stall"] = 1
            for nme, v in e.items():
                got = outs[pi[f"i{k}_{nme}"]]
                if got != v:
                    role = "owner" if k == owner else "non-owner"
                    return dict(msg=f"{role} initiator {k} sees {nme}={got:#x}, expected {v:#x} (owner is {owner})",
                                signature=dict(kind="oracle", what=f"intr_{nme}", role=role)), 0
        if self.in_progress(owner, letter):
            o2 = self.owner_of(hw2)
            if o2 != owner:
                return dict(msg=f"ownership moved from {owner} to {o2} while the owner's bus cycle was in progress",
                            signature=dict(kind="oracle", what="preempted")), 0
        return None, 0


def configs(tier):
    return arb_configs(tier)


def run_config(cfg, tier, seed):
    return explore_hw(build, Observer, cfg, tier, seed, pass_hw=True)


def replay(data):
    return rederive(build, Observer, data["cfg"], data["trace"], None, pass_hw=True)


def main(tier, seed):
    t0 = time.time()
    results = run_configs(run_config, configs(tier), tier, seed)
    cov = aggregate(results)
    cov["rule"] = ("1-4 initiators x arbiter feature subsets x initiator feature policies (same/all/minimal/mixed) x "
                   "granularity ratios 1-8, plus 5-6 (thorough: 5-8) initiators with a reduced alphabet, a second elaboration, Feature-enum "
                   "arguments and a refused add() in the middle; full BFS; letters = all (cyc,stb,lock) per initiator x 2+2*log2(N) token "
                   "phases x all target responses (many-initiator configurations: one token phase per control letter, see the module)")
    return finish(PID, tier, seed, "model_checking", cov, ASSUMPTIONS, t0, results, min_explored=int(0.9 * len(results)))


ASSUMPTIONS = [
    "Amaranth 0.5.10 front end, build_netlist and Simulator are the trusted base", "rst held at 0",
    "address/data/select/we/cti/bte driven with 2+2*log2(N)-phase tokens in which any two initiators differ in every bit "
    "position in some phase and every bit takes both values (not all 2^k values)",
    "non-owners' dat_r is not checked (the property does not constrain it)",
]
