"""Shared by C08 and C09: wishbone.Arbiter harness, letter alphabets and the inferred owner."""
import itertools

from amaranth import Module

from ..netlist import Harness

FEATS = ("err", "rty", "stall", "lock", "cti", "bte")


def fbit(i, j, p):
    """Bit j of the token initiator i drives in phase p. Any two different initiators (index < 8)
    differ in EVERY bit position in one of the phases 2..7; every bit takes both values."""
    if p == 0:
        return 0
    if p == 1:
        return 1
    k = (p - 2) // 2            # which bit of the initiator index this phase exposes
    v = ((i >> k) ^ (j >> k)) & 1
    return v ^ ((p - 2) & 1)


def phases_for(n):
    """2 constant phases + 2 per bit of the initiator index"""
    return 2 + 2 * max(1, (max(n, 2) - 1).bit_length())


def token(i, p, width, salt=0):
    v = 0
    for j in range(width):
        v |= fbit(i, j + salt, p) << j
    return v


def build(cfg):
    from amaranth_soc import wishbone
    aw, dw, gran = cfg.get("aw", 2), cfg["dw"], cfg["gran"]
    afeat = cfg["afeat"] if not cfg.get("feat_enum") else {wishbone.Feature(f) for f in cfg["afeat"]}
    arb = wishbone.Arbiter(addr_width=aw, data_width=dw, granularity=gran, features=afeat)
    intrs = []
    rejected = None
    for k, ic in enumerate(cfg["intrs"]):
        if cfg.get("early_elab") == k:
            # elaborated once (say, simulated on its own) before the remaining initiators are added
            from amaranth.hdl import Fragment
            Fragment.get(arb, None)
        if cfg.get("dup_add") == k and intrs:
            try:
                arb.add(intrs[0])          # the same initiator offered again: whatever the answer, no new participant
            except (ValueError, TypeError):
                pass
        if cfg.get("reject_before") == k:
            # an incompatible initiator is offered in between and must be refused without trace
            bad = wishbone.Interface(addr_width=aw, data_width=dw, granularity=gran,
                                     features=[f for f in cfg["afeat"] if f not in ("err", "rty")],
                                     path=("rej",))
            try:
                arb.add(bad)
            except ValueError:
                rejected = bad
        ifeat = ic["feat"] if not cfg.get("feat_enum") else frozenset(wishbone.Feature(f) for f in ic["feat"])
        bus = wishbone.Interface(addr_width=aw, data_width=dw, granularity=ic["gran"], features=ifeat,
                                 path=(f"i{k}",))
        arb.add(bus)
        intrs.append(bus)
    m = Module()
    m.submodules.arb = arb
    inputs, probes = [], []
    for k, b in enumerate(intrs):
        for n in ("adr", "dat_w", "sel", "we", "stb", "cyc", "lock", "cti", "bte"):
            if hasattr(b, n):
                inputs.append((f"i{k}_{n}", getattr(b, n)))
        for n in ("ack", "err", "rty", "stall", "dat_r"):
            if hasattr(b, n):
                probes.append((f"i{k}_{n}", getattr(b, n)))
    if rejected is not None:
        for n in ("adr", "dat_w", "sel", "we", "stb", "cyc"):
            inputs.append((f"rej_{n}", getattr(rejected, n)))
    t = arb.bus
    for n in ("ack", "err", "rty", "stall", "dat_r"):
        if hasattr(t, n):
            inputs.append((f"t_{n}", getattr(t, n)))
    for n in ("adr", "dat_w", "sel", "we", "stb", "cyc", "lock", "cti", "bte"):
        if hasattr(t, n):
            probes.append((f"t_{n}", getattr(t, n)))
    return Harness(m, inputs, probes, dict(n=len(intrs), rejected=rejected is not None))


class ArbModel:
    """Letter construction + expected values shared by the C08 and C09 observers."""
    def __init__(self, cfg, h, comp):
        self.cfg = cfg
        self.n = n = len(cfg["intrs"])
        self.comp = comp
        self.ii, self.pi = comp.in_index, comp.probe_index
        self.afeat = set(cfg["afeat"])
        self.ifeat = [set(ic["feat"]) for ic in cfg["intrs"]]
        self.ratio = [ic["gran"] // cfg["gran"] for ic in cfg["intrs"]]
        self.widths = dict(zip(comp.in_names, comp.in_widths))
        self.rejected = h.meta["rejected"]
        self._owner = {}
        # the ports a feature set implies must exist (a port that is missing cannot carry / relay anything)
        self.missing = []
        for f in sorted(self.afeat):
            if f"t_{f}" not in self.ii and f"t_{f}" not in self.pi:
                self.missing.append(f"the arbiter declares feature {f!r} but its shared bus has no {f!r} line")
        for k in range(n):
            for f in sorted(self.ifeat[k]):
                if f"i{k}_{f}" not in self.ii and f"i{k}_{f}" not in self.pi:
                    self.missing.append(f"initiator {k} declares feature {f!r} but its interface has no {f!r} line")

    def ctl_vectors(self):
        """All combinations of (cyc, stb, lock) per initiator (lock only where present)."""
        per = []
        for k in range(self.n):
            opts = []
            for cyc, stb in itertools.product((0, 1), (0, 1)):
                for lock in ((0, 1) if "lock" in self.ifeat[k] else (0,)):
                    opts.append((cyc, stb, lock))
            per.append(opts)
        return list(itertools.product(*per))

    def letter(self, ctl, phase, resp, rej=0):
        d = {}
        for k in range(self.n):
            cyc, stb, lock = ctl[k]
            d[f"i{k}_cyc"], d[f"i{k}_stb"], d[f"i{k}_lock"] = cyc, stb, lock
            for salt, nme in enumerate(("adr", "dat_w", "sel", "we", "cti", "bte")):
                key = f"i{k}_{nme}"
                if key in self.widths:
                    d[key] = token(k, phase, self.widths[key], salt)
        if self.rejected:
            for salt, nme in enumerate(("adr", "dat_w", "sel", "we")):
                d[f"rej_{nme}"] = token(5, phase, self.widths[f"rej_{nme}"], salt)
            d["rej_cyc"] = d["rej_stb"] = rej
        ack, err, rty, stall = resp
        d["t_ack"], d["t_err"], d["t_rty"], d["t_stall"] = ack, err, rty, stall        # (absent lines are dropped below)
        d["t_dat_r"] = token(0, phase, self.widths["t_dat_r"], 3)
        return tuple(d.get(nme, 0) for nme in self.comp.in_names)

    def resp_vectors(self):
        opts = [(0, 1)]
        for f in ("err", "rty", "stall"):
            opts.append((0, 1) if f in self.afeat else (0,))
        return list(itertools.product(*opts))

    # ---- what the shared bus must carry if initiator k owns it ---------------------------------
    def expected_bus(self, k, letter):
        ii = self.ii
        g = lambda nme, default=0: letter[ii[f"i{k}_{nme}"]] if f"i{k}_{nme}" in ii else default
        sel = g("sel")
        r = self.ratio[k]
        fan = 0
        wsel = self.widths[f"i{k}_sel"]
        for b in range(wsel):
            if (sel >> b) & 1:
                fan |= ((1 << r) - 1) << (b * r)
        exp = dict(adr=g("adr"), dat_w=g("dat_w"), sel=fan, we=g("we"), stb=g("stb"), cyc=g("cyc"))
        if "lock" in self.afeat:
            exp["lock"] = g("lock")
        if "cti" in self.afeat:
            exp["cti"] = g("cti")
        if "bte" in self.afeat:
            exp["bte"] = g("bte")
        return exp

    def owner_of(self, hw):
        """Inferred from behaviour: the unique initiator whose signals the shared bus carries under
        a family of discriminating letters (all initiators active, phases 2-5)."""
        if hw in self._owner:
            return self._owner[hw]
        cands = set(range(self.n))
        ctl = tuple((1, 1, 1 if "lock" in self.ifeat[k] else 0) for k in range(self.n))
        for phase in range(2, phases_for(self.n)):
            for rej in ((0, 1) if self.rejected else (0,)):
                letter = self.letter(ctl, phase, (0, 0, 0, 0), rej)
                outs, _ = self.comp.step(hw, letter)
                for k in list(cands):
                    exp = self.expected_bus(k, letter)
                    if any(outs[self.pi[f"t_{nme}"]] != v for nme, v in exp.items() if f"t_{nme}" in self.pi):
                        cands.discard(k)
        res = next(iter(cands)) if len(cands) == 1 else None
        if self.n == 1 and 0 in cands:
            res = 0
        self._owner[hw] = res
        return res

    def in_progress(self, k, letter):
        ii = self.ii
        cyc = letter[ii[f"i{k}_cyc"]]
        if "lock" in self.afeat:
            lock = letter[ii[f"i{k}_lock"]] if f"i{k}_lock" in ii else 0
            return bool(cyc and (lock or letter[ii[f"i{k}_stb"]]))
        return bool(cyc)


def feature_configs(tier):
    """(arbiter features, per-initiator feature policy)"""
    quick = tier == "quick"
    afs = [(), FEATS, ("lock",), ("err",), ("rty",), ("stall",), ("cti",), ("bte",), ("err", "rty", "stall"),
           ("lock", "stall")]
    if not quick:
        afs = [tuple(f for f, b in zip(FEATS, bits) if b) for bits in itertools.product((0, 1), repeat=6)]
    out = []
    for af in afs:
        for policy in ("same", "all", "minimal", "mixed"):
            out.append((tuple(af), policy))
    return out


def intr_features(af, policy, k):
    req = [f for f in af if f in ("err", "rty")]       # initiators must have these
    if policy == "same":
        return tuple(af)
    if policy == "all":
        return FEATS
    if policy == "minimal":
        return tuple(req)
    if policy in ("even", "odd"):
        # every optional line present on every other initiator only (a full-featured initiator next to a bare one, both orders)
        return FEATS if (k % 2 == 0) == (policy == "even") else tuple(req)
    # mixed: even initiators have everything, odd ones only what is required (+ stall on odd)
    return FEATS if k % 2 == 0 else tuple(req) + (("stall",) if "stall" not in req else ())


def configs(tier):
    quick = tier == "quick"
    out = []
    seen = set()

    def add(c):
        key = repr(c)
        if key not in seen:
            seen.add(key); out.append(c)

    for af, policy in feature_configs(tier):
        for n in (1, 2, 3, 4):
            if quick and n == 4 and (policy not in ("same", "mixed") or len(af) > 1):
                continue
            if not quick and n in (1, 4) and len(af) not in (0, 1, 2, 6):
                continue
            if n == 4 and "lock" in af and policy == "all" and len(af) > 2:
                continue
            intrs = [dict(gran=8, feat=intr_features(af, policy, k)) for k in range(n)]
            add(dict(dw=8, gran=8, afeat=af, intrs=intrs))
    # more initiators than a 2-bit grant can number
    for n, af in ((5, ()), (5, ("lock",)), (6, ("err", "stall"))) + (() if quick else ((7, ()), (8, ()), (6, ("lock",)), (5, FEATS))):
        intrs = [dict(gran=8, feat=intr_features(af, "mixed" if n == 6 else "same", k)) for k in range(n)]
        add(dict(dw=8, gran=8, afeat=tuple(af), intrs=intrs, many=True))
    # granularity ratios (select fan-out), incl. 64-bit bus with 8-bit arbiter granularity
    for dw, gran, igs in ((16, 8, (8, 16)), (32, 8, (32, 8, 16)), (64, 8, (32, 64, 8)), (64, 16, (64, 16)),
                          (32, 16, (32,)), (64, 32, (64, 32))):
        for af in ((), ("lock", "stall")):
            intrs = [dict(gran=g, feat=af) for g in igs]
            add(dict(dw=dw, gran=gran, afeat=af, intrs=intrs, aw=1))
    add(dict(dw=8, gran=8, afeat=("lock", "stall"), intrs=[dict(gran=8, feat=("lock", "stall")) for _ in range(3)], elab_twice=True))
    for af in (("lock",), FEATS, ("err", "stall", "cti")):
        add(dict(dw=8, gran=8, afeat=af, intrs=[dict(gran=8, feat=intr_features(af, "mixed", k)) for k in range(2)], feat_enum=True))
    # a full-featured initiator next to a bare one, in both orders
    for af in ((), ("stall",), ("lock", "stall"), ("err", "rty", "stall"), FEATS):
        for policy in ("even", "odd"):
            for n in (2, 3):
                add(dict(dw=8, gran=8, afeat=af, intrs=[dict(gran=8, feat=intr_features(af, policy, k)) for k in range(n)]))
    # elaborated once before all initiators are there (1->2, 2->3, 1->3 ... cross a power of two)
    for af in ((), ("lock", "stall")):
        for n, pos in ((2, 1), (3, 2), (3, 1), (5, 2), (2, 0)):
            if quick and n == 5 and af:
                continue
            add(dict(dw=8, gran=8, afeat=af, intrs=[dict(gran=8, feat=af) for _ in range(n)], early_elab=pos, **(dict(many=True) if n >= 5 else {})))
    # a refused add() in the middle of the history must leave no trace
    for af in (("err",), ("err", "rty", "lock")):
        for n, pos in ((2, 1), (3, 1), (3, 2)):
            intrs = [dict(gran=8, feat=af) for _ in range(n)]
            add(dict(dw=8, gran=8, afeat=af, intrs=intrs, reject_before=pos))
    return out
