"""CLI: python -m vf.run <id> [--tier quick|thorough] [--replay file]"""
import argparse
import importlib
import json
import os
import sys


def main():
    ap = argparse.ArgumentParser()
    ap.add_argument("pid")
    ap.add_argument("--tier", default=None)
    ap.add_argument("--replay", default=None)
    args = ap.parse_args()

    if os.environ.get("PYTHONHASHSEED") != "0" or os.environ.get("PYTHONDONTWRITEBYTECODE") != "1":
        env = dict(os.environ, PYTHONHASHSEED="0", PYTHONDONTWRITEBYTECODE="1")
        os.execve(sys.executable, [sys.executable, "-m", "vf.run"] + sys.argv[1:], env)

    import warnings
    warnings.simplefilter("ignore")
    from .common import env_tier_seed
    pid = args.pid.upper()
    mod = importlib.import_module(f"vf.checks.{pid.lower()}")
    if args.replay:
        with open(args.replay) as f:
            data = json.load(f)
        err, where = mod.replay(data)
        if err is None:
            print(f"replay: property {pid} holds on this witness (not reproduced)")
            return 0
        print(f"replay: property {pid} violated at step {where}: {json.dumps(err)[:800]}")
        print(f"VIOLATION property={pid} replay={os.path.abspath(args.replay)}")
        return 1
    tier, seed = env_tier_seed(args.tier)
    try:
        return mod.main(tier, seed)
    except Exception:
        import traceback
        traceback.print_exc()
        print(f"TOOL-ERROR property={pid}: the checking machinery failed (see the traceback); no verdict")
        return 2


if __name__ == "__main__":
    sys.exit(main())
