"""Shared runner plumbing: tiers, worker pool, replay files, known findings, evidence, refusals."""
import ast
import hashlib
import json
import linecache
import multiprocessing as mp
import os
import signal
import sys
import time
import traceback

from . import ROOT

JOBS = int(os.environ.get("VERIF_JOBS", "16"))


class ToolFailure(Exception):
    """The machinery (not the code under test) is broken: exit code 2, never a VIOLATION line."""


# ---------------------------------------------------------------------------------------------
# refusal classifier (DESIGN.md 3.7)
# ---------------------------------------------------------------------------------------------

_raise_cache = {}


def _raise_nodes(filename):
    if filename not in _raise_cache:
        nodes = []
        try:
            with open(filename) as f:
                tree = ast.parse(f.read())
            for node in ast.walk(tree):
                if isinstance(node, ast.Raise):
                    nodes.append(node)
        except (OSError, SyntaxError):
            pass
        _raise_cache[filename] = nodes
    return _raise_cache[filename]


def _raised_class_name(node):
    """The exception CLASS a raise statement names, if it names a builtin exception class at all
    (`raise ValueError(...)`); None for `raise err`, `raise helper(...)`, bare `raise`."""
    import builtins
    exc = node.exc
    if exc is None:
        return None
    if isinstance(exc, ast.Call):
        exc = exc.func
    name = exc.id if isinstance(exc, ast.Name) else exc.attr if isinstance(exc, ast.Attribute) else None
    obj = getattr(builtins, name, None) if name else None
    if isinstance(obj, type) and issubclass(obj, BaseException):
        return name
    return None


def is_refusal(exc):
    """A *refusal* is a ValueError/TypeError (or subclass) whose innermost frame is a ``raise``
    statement inside amaranth_soc or amaranth that names the class of the exception caught."""
    if not isinstance(exc, (ValueError, TypeError)):
        return False
    tb = exc.__traceback__
    if tb is None:
        return False
    while tb.tb_next is not None:
        tb = tb.tb_next
    filename = tb.tb_frame.f_code.co_filename
    norm = filename.replace("\\", "/")
    if norm.endswith("/enum.py") and isinstance(exc, ValueError):
        # Enum value lookup - Feature(x), Access(x), Trigger(x) - is the library's documented way of
        # validating such arguments ("raises ValueError if feature is invalid"); the message names
        # the offending value and the enumeration.
        return True
    if "/amaranth_soc/" not in norm and "/amaranth/" not in norm:
        return False
    lineno = tb.tb_lineno
    for node in _raise_nodes(filename):
        if node.lineno <= lineno <= getattr(node, "end_lineno", node.lineno):
            name = _raised_class_name(node)
            if name is None:
                return True   # bare re-raise, `raise err`, `raise helper(...)`: a deliberate raise
            # `raise ValueError(f"...{'__'.join(path)}")` that surfaces as a TypeError raised while
            # the message was being built sits on a raise line too: the classes must agree.
            return type(exc).__name__ == name
    return False


def describe_exc(exc):
    tb = exc.__traceback__
    frames = traceback.extract_tb(tb)
    where = ""
    for fr in reversed(frames):
        if "amaranth_soc" in fr.filename:
            where = f"{os.path.relpath(fr.filename, '/repo') if fr.filename.startswith('/repo') else fr.filename}:{fr.name}"
            break
    return dict(type=type(exc).__name__, message=str(exc)[:300], where=where)


class Watchdog:
    """SIGALRM watchdog for 'never fails to terminate'."""
    class Timeout(Exception):
        pass

    def __init__(self, seconds):
        self.seconds = seconds

    def _fire(self, signum, frame):
        raise Watchdog.Timeout(f"no termination within {self.seconds}s")

    def __enter__(self):
        self._old = signal.signal(signal.SIGALRM, self._fire)
        signal.alarm(self.seconds)

    def __exit__(self, *a):
        signal.alarm(0)
        signal.signal(signal.SIGALRM, self._old)
        return False


# ---------------------------------------------------------------------------------------------
# worker pool
# ---------------------------------------------------------------------------------------------

def _call(args):
    fn, cfg, tier, seed = args
    t0 = time.time()
    try:
        res = fn(cfg, tier, seed)
    except ToolFailure as e:
        res = dict(tool_error=f"{e}")
    except Exception as e:     # machinery bug: report as tool error with traceback
        res = dict(tool_error="".join(traceback.format_exception(type(e), e, e.__traceback__))[-3000:])
    res.setdefault("cfg", cfg)
    res["wall"] = time.time() - t0
    return res


def run_configs(fn, configs, tier, seed, jobs=None):
    """Run fn(cfg, tier, seed) for every configuration on the worker pool; results in config order."""
    jobs = jobs or JOBS
    items = [(fn, cfg, tier, seed) for cfg in configs]
    if jobs <= 1 or len(items) <= 1:
        return [_call(it) for it in items]
    ctx = mp.get_context("fork")
    # largest first is not known; chunksize 1 keeps the pool balanced
    with ctx.Pool(min(jobs, len(items))) as pool:
        return list(pool.imap(_call, items, chunksize=1))


# ---------------------------------------------------------------------------------------------
# known findings
# ---------------------------------------------------------------------------------------------

def load_known():
    path = os.path.join(ROOT, "known_findings.json")
    if not os.path.exists(path):
        return []
    with open(path) as f:
        data = json.load(f)
    return [e for e in data.get("findings", []) if e.get("status") == "known"]


def match_known(pid, signature, known):
    """``signature`` is a dict describing the witness; an entry matches if every key of its
    ``match`` dict equals the witness's value."""
    for e in known:
        if e.get("property") != pid:
            continue
        if all(signature.get(k) == v for k, v in e.get("match", {}).items()):
            return e
    return None


# ---------------------------------------------------------------------------------------------
# replay files, evidence, exit
# ---------------------------------------------------------------------------------------------

def jsonable(x):
    if isinstance(x, dict):
        return {str(k): jsonable(v) for k, v in x.items()}
    if isinstance(x, (list, tuple, set, frozenset)):
        return [jsonable(v) for v in x]
    if isinstance(x, (int, float, str, bool)) or x is None:
        return x
    return repr(x)


def write_replay(pid, payload):
    os.makedirs(os.path.join(ROOT, "replays"), exist_ok=True)
    blob = json.dumps(jsonable(payload), sort_keys=True, indent=1)
    digest = hashlib.sha1(blob.encode()).hexdigest()[:12]
    path = os.path.join(ROOT, "replays", f"{pid}-{digest}.json")
    with open(path, "w") as f:
        f.write(blob)
    return path


def write_evidence(pid, tier, seed, level, coverage, assumptions, wall, violations):
    if os.environ.get("VERIF_NO_EVIDENCE"):      # development runs against scratch trees only
        return None
    os.makedirs(os.path.join(ROOT, "evidence"), exist_ok=True)
    ev = dict(property_id=pid, tier=tier, seed=seed, level=level, coverage=jsonable(coverage),
              assumptions=assumptions, wall_s=round(wall, 2), violations=violations)
    path = os.path.join(ROOT, "evidence", f"{pid}.json")
    tmp = path + ".tmp"
    with open(tmp, "w") as f:
        json.dump(ev, f, indent=1, sort_keys=True)
    os.replace(tmp, path)
    return path


def finish(pid, tier, seed, level, coverage, assumptions, t0, results, extra_violations=(), min_explored=None):
    """Common tail of every check: violations -> known finding or VIOLATION (exit 1); otherwise tool
    errors -> exit 2; evidence is written in every case.  ``min_explored``: vacuity guard - the number
    of configurations that must have been explored (not refused); fewer is a tool error, because a
    library that refuses (almost) everything would otherwise pass unexamined."""
    known = load_known()
    tool_errors = [r for r in results if r.get("tool_error")]
    if min_explored is not None:
        explored = sum(1 for r in results if not r.get("refused") and not r.get("tool_error"))
        if explored < min_explored:
            tool_errors.append(dict(cfg=None, tool_error=f"vacuity guard: only {explored} configurations were explored "
                                                          f"(at least {min_explored} expected); too many were refused"))
    viols = []
    for r in results:
        for v in r.get("violations", []) or ([] if r.get("violation") is None else [r["violation"]]):
            viols.append((r.get("cfg"), v))
    for v in extra_violations:
        viols.append((None, v))
    new, seen_known = [], {}
    for cfg, v in viols:
        sig = v.get("signature", {})
        e = match_known(pid, sig, known)
        if e is not None:
            seen_known.setdefault(e["id"], (e, 0))
            seen_known[e["id"]] = (e, seen_known[e["id"]][1] + 1)
        else:
            new.append((cfg, v))
    coverage = dict(coverage)
    coverage["known_findings_reproduced"] = {k: n for k, (e, n) in seen_known.items()}
    coverage["tool_errors"] = len(tool_errors)
    write_evidence(pid, tier, seed, level, coverage, assumptions, time.time() - t0, len(new))
    for k, (e, n) in sorted(seen_known.items()):
        print(f"KNOWN-FINDING: property={pid} {e['what']} [{k}; reproduced on {n} case(s)]")
    if tool_errors:
        for r in tool_errors[:5]:
            print(f"TOOL-ERROR property={pid} cfg={r.get('cfg')!r}\n{r['tool_error']}", file=sys.stderr)
        print(f"TOOL-ERROR property={pid}: {len(tool_errors)} configuration(s) could not be decided")
        if not new:
            return 2
    if new:
        # one replay file per distinct signature (first witness of each), capped
        done = set()
        for cfg, v in new:
            key = json.dumps(jsonable(v.get("signature", {})), sort_keys=True)
            if key in done:
                continue
            done.add(key)
            if len(done) > 10:
                break
            path = write_replay(pid, dict(property=pid, cfg=cfg, **{k: v[k] for k in v if k != "signature"},
                                          signature=v.get("signature", {})))
            print(f"VIOLATION property={pid} replay={path}")
            print(f"  detail: {json.dumps(jsonable(v.get('err', v.get('detail'))))[:600]}")
        return 1
    return 0


def env_tier_seed(argv_tier=None):
    tier = argv_tier or os.environ.get("VERIF_TIER") or "quick"
    if tier not in ("quick", "thorough"):
        tier = "quick"
    try:
        seed = int(os.environ.get("VERIF_SEED", "0"))
    except ValueError:
        seed = 0
    return tier, seed
