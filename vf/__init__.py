"""Model-checking machinery for amaranth-soc (see /verif/DESIGN.md)."""
import os
import sys

# Checks always import amaranth_soc from /repo's working tree (editable install in /venv).
# VERIF_REPO may point at another checkout (a scratch worktree holding a seeded change); it is a
# convenience for development only and is never set by the registered commands.
_alt = os.environ.get("VERIF_REPO")
if _alt:
    sys.path.insert(0, _alt)

ROOT = os.path.dirname(os.path.dirname(os.path.abspath(__file__)))
