"""Engine N search: level-synchronous explicit-state BFS over (hardware state, observer state)."""
import time


class BFSResult:
    def __init__(self):
        self.states = 0
        self.transitions = 0
        self.max_depth = 0
        self.capped = None        # None or reason string
        self.violation = None     # None or dict(err=..., trace=[letters...])
        self.outcomes = 0
        self.seen = None
        self.levels = []

    def path(self, node):
        """Letters from the initial node to ``node`` along the BFS tree."""
        out = []
        while True:
            p = self.seen[node]
            if p is None:
                break
            node, letter = p
            out.append(letter)
        out.reverse()
        return out

    def leaves(self):
        parents = set()
        for node, p in self.seen.items():
            if p is not None:
                parents.add(p[0])
        return [n for n in self.seen if n not in parents]


def bfs(init, step, letters, observe, *, max_states=2_000_000, max_seconds=600.0, max_depth=None,
        on_edge=None, pass_hw=False, prefixes=()):
    """``init``: (hw_state, obs_state).  ``letters(obs)`` -> iterable of input tuples.
    ``observe(obs, letter, outs)`` -> (err or None, obs').  ``on_edge(node, letter, outs, node2)``
    optional (graph bookkeeping for liveness checks)."""
    r = BFSResult()
    seen = {init: None}
    r.seen = seen
    frontier = [init]
    t0 = time.time()
    outcomes = set()
    depth = 0
    transitions = 0
    nodes_done = 0
    # scripted prefixes ("start from non-initial states too"): each is walked from the initial node with the
    # oracle checked on every step; the node it ends in joins the initial frontier (with parent pointers, so
    # every later witness is still a complete trace from reset)
    for script in prefixes:
        node = init
        for letter in script:
            hw, obs = node
            outs, hw2 = step(hw, letter)
            if pass_hw:
                err, obs2 = observe(obs, letter, outs, hw, hw2)
            else:
                err, obs2 = observe(obs, letter, outs)
            transitions += 1
            if err is not None:
                r.violation = dict(err=err, trace=r.path(node) + [letter])
                r.states = len(seen); r.transitions = transitions
                return r
            n2 = (hw2, obs2)
            if n2 not in seen:
                seen[n2] = (node, letter)
            node = n2
        if node not in frontier:
            frontier.append(node)
    while frontier:
        if max_depth is not None and depth >= max_depth:
            r.capped = f"depth {max_depth}"
            break
        nxt = []
        for node in frontier:
            hw, obs = node
            for letter in letters(obs):
                outs, hw2 = step(hw, letter)
                if pass_hw:
                    err, obs2 = observe(obs, letter, outs, hw, hw2)
                else:
                    err, obs2 = observe(obs, letter, outs)
                transitions += 1
                if len(outcomes) < 50000:
                    outcomes.add(outs)
                if err is not None:
                    r.violation = dict(err=err, trace=r.path(node) + [letter])
                    r.states = len(seen); r.transitions = transitions
                    r.max_depth = depth + 1; r.outcomes = len(outcomes)
                    return r
                n2 = (hw2, obs2)
                if n2 not in seen:
                    seen[n2] = (node, letter)
                    nxt.append(n2)
                if on_edge is not None:
                    on_edge(node, letter, outs, n2)
            if len(seen) > max_states:
                r.capped = f"states>{max_states}"
                break
            nodes_done += 1
            if nodes_done % 256 == 0 and time.time() - t0 > max_seconds:
                r.capped = f"time>{max_seconds}s"
                break
        if r.capped:
            break
        depth += 1
        r.levels.append(len(nxt))
        frontier = nxt
        if frontier and time.time() - t0 > max_seconds:
            r.capped = f"time>{max_seconds}s"
            break
    r.states = len(seen)
    r.transitions = transitions
    r.max_depth = depth
    r.outcomes = len(outcomes)
    return r
