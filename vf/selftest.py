"""setup_cmd: evaluator self-test + determinism self-test (offline, files on disk only).

1. For every NIR operator / cell kind, tiny circuits are built with Amaranth and the compiled step
   function is compared with amaranth.sim on ALL inputs (combinational) or on every BFS-tree path of
   the full state graph (flip-flops, memories).
2. One configuration of each engine is explored twice in separate processes; digests must agree.
"""
import hashlib
import itertools
import json
import os
import subprocess
import sys
import time
import warnings

warnings.simplefilter("ignore")

from amaranth import Module, Signal, Mux, Cat, Const, signed, unsigned, Array
from amaranth.lib import memory as libmem

from .netlist import Harness, compile_harness
from .conform import simulate
from .explore import bfs


def comb_circuit(wa, wb, sa, sb):
    m = Module()
    a = Signal(signed(wa) if sa else unsigned(wa), name="a")
    b = Signal(signed(wb) if sb else unsigned(wb), name="b")
    c = Signal(1, name="c")
    exprs = {
        "add": a + b, "sub": a - b, "mul": a * b, "neg": -a, "inv": ~a,
        "and": a & b, "or": a | b, "xor": a ^ b,
        "eq": a == b, "ne": a != b, "lt": a < b, "le": a <= b, "gt": a > b, "ge": a >= b,
        "bool": a.bool(), "any": a.any(), "all": a.all(), "rxor": a.xor(),
        "mux": Mux(c, a, b), "cat": Cat(a, b, c), "abs": abs(a),
        "shr": a >> b.as_unsigned(), "shl": a << b.as_unsigned(),
        "bsel": a.bit_select(b.as_unsigned(), 1), "wsel": Cat(a, b, a).word_select(b.as_unsigned(), 2),
        "rep": a.replicate(2), "sl": a[0:1], "as_s": a.as_signed() + 1, "as_u": a.as_unsigned() + b.as_unsigned(),
        "div": a // b, "mod": a % b,
        "rotl": a.rotate_left(1), "sli": a.shift_left(1), "sri": a.shift_right(1),
        "m1": a.matches("1" + "-" * (wa - 1)), "m2": a.matches(1, 0),
    }
    probes = []
    for name, e in exprs.items():
        s = Signal(e.shape(), name=f"o_{name}")
        m.d.comb += s.eq(e)
        probes.append((name, s))
    # control plane: priority If/Elif/Else, Switch with default, partial assignment, Array
    o1 = Signal(4, name="o_ctl")
    with m.If(a == 0):
        m.d.comb += o1.eq(1)
    with m.Elif(b[0]):
        m.d.comb += o1[1:3].eq(3)
    with m.Else():
        m.d.comb += o1.eq(8)
    with m.If(c):
        m.d.comb += o1[3].eq(~o1[0])
    o2 = Signal(3, name="o_sw")
    with m.Switch(Cat(a, c)):
        with m.Case(0):
            m.d.comb += o2.eq(1)
        with m.Case("1" + "-" * wa):
            m.d.comb += o2.eq(b)
        with m.Default():
            m.d.comb += o2.eq(7)
    arr = Array([a, b, Const(1, 2), ~a])
    o3 = Signal(4, name="o_arr")
    m.d.comb += o3.eq(arr[b.as_unsigned()[:2]])
    probes += [("ctl", o1), ("sw", o2), ("arr", o3)]
    return Harness(m, [("a", a), ("b", b), ("c", c)], probes)


def seq_circuit(kind):
    m = Module()
    if kind == "flops":
        en = Signal(name="en"); d = Signal(2, name="d"); clr = Signal(name="clr")
        q = Signal(2, init=2, name="q"); cnt = Signal(signed(2), init=-1, name="cnt")
        prev = Signal(name="prev")
        with m.If(clr):
            m.d.sync += q.eq(0)
        with m.Elif(en):
            m.d.sync += q.eq(d)
        with m.If(en):
            m.d.sync += cnt.eq(cnt + 1)
        m.d.sync += prev.eq(d[0] ^ q[1])
        for i, bit in enumerate(q):
            with m.If(d[i] & clr & en):
                m.d.sync += bit.eq(1)
        return Harness(m, [("en", en), ("d", d), ("clr", clr)], [("q", q), ("cnt", cnt), ("prev", prev)])
    # memories
    transparent = kind == "mem_transparent"
    md = libmem.MemoryData(shape=unsigned(4), depth=3 if kind == "mem_odd" else 2, init=[5, 10])
    mem = libmem.Memory(md)
    m.submodules.mem = mem
    wp = mem.write_port(granularity=2)
    rp = mem.read_port(transparent_for=(wp,) if transparent else ())
    ap = mem.read_port(domain="comb")
    wa = Signal.like(wp.addr, name="wa"); wd = Signal(4, name="wd"); we = Signal(2, name="we")
    ra = Signal.like(rp.addr, name="ra"); re = Signal(name="re"); aa = Signal.like(ap.addr, name="aa")
    m.d.comb += [wp.addr.eq(wa), wp.data.eq(wd), wp.en.eq(we), rp.addr.eq(ra), rp.en.eq(re), ap.addr.eq(aa)]
    rd = Signal(4, name="rd"); ad = Signal(4, name="ad")
    m.d.comb += [rd.eq(rp.data), ad.eq(ap.data)]
    return Harness(m, [("wa", wa), ("wd", wd), ("we", we), ("ra", ra), ("re", re), ("aa", aa)],
                   [("rd", rd), ("ad", ad), ("mem", mem)])


def check_comb():
    n = 0
    for wa, wb, sa, sb in itertools.product((1, 2, 3), (1, 2, 3), (False, True), (False, True)):
        h = comb_circuit(wa, wb, sa, sb)
        comp = compile_harness(h)
        trace = list(itertools.product(range(1 << wa), range(1 << wb), range(2)))
        got = simulate(comb_circuit(wa, wb, sa, sb), trace)
        for letter, g in zip(trace, got):
            outs, _ = comp.step(comp.init, letter)
            if tuple(outs) != g:
                diff = [(nm, x, y) for nm, x, y in zip(comp.probe_names, outs, g) if x != y]
                print(f"SELFTEST FAIL comb wa={wa} wb={wb} sa={sa} sb={sb} in={letter}: (name, step, sim) {diff}")
                return None
            n += 1
    return n


class _Null:
    def __init__(self, letters):
        self.init = 0
        self._l = letters

    def letters(self, obs):
        return self._l

    def observe(self, obs, letter, outs):
        return None, 0


def check_seq():
    total = 0
    for kind in ("flops", "mem_plain", "mem_transparent", "mem_odd"):
        h = seq_circuit(kind)
        comp = compile_harness(h)
        if kind == "flops":
            letters = list(itertools.product(*[range(1 << w) for w in comp.in_widths]))
        else:
            # wd tokens 0b0110 / 0b1001 / 0b1111, everything else full
            doms = [range(1 << w) for w in comp.in_widths]
            doms[comp.in_index["wd"]] = (6, 9, 15)
            if kind == "mem_odd":     # 3 rows: address 3 is out of range for every port
                doms[comp.in_index["wd"]] = (6,)
                doms[comp.in_index["we"]] = (0, 1, 3)
                doms[comp.in_index["aa"]] = (0, 3)
            letters = list(itertools.product(*doms))
        ob = _Null(letters)
        r = bfs((comp.init, 0), comp.step, ob.letters, ob.observe, max_states=200000)
        leaves = r.leaves()
        # every tree path + every letter appended at a stride of leaves
        for k, leaf in enumerate(leaves):
            path = r.path(leaf)
            extra = letters[k % len(letters)]
            trace = path + [extra]
            got = simulate(seq_circuit(kind), trace)
            st = comp.init
            for t, letter in enumerate(trace):
                outs, st = comp.step(st, letter)
                if tuple(outs) != got[t]:
                    print(f"SELFTEST FAIL seq {kind} cycle {t} trace={trace[:t+1]} step={outs} sim={got[t]}")
                    return None
            total += len(trace)
            if k == 0:
                # the fallback used when a fresh instance differs from the explored one: Amaranth's simulator run on
                # the very Design object that was compiled must agree with the compiled step function as well
                same = simulate(h, trace, design=comp.design)
                if same != got:
                    print(f"SELFTEST FAIL seq {kind}: simulation of the compiled Design differs from a fresh elaboration")
                    return None
            if k > 400:
                break
        print(f"  seq {kind}: states={r.states} transitions={r.transitions} leaves={len(leaves)}")
    return total


def digest_run(which):
    """Explore one fixed configuration and print a digest of the explored graph."""
    if which == "N":
        from .checks import c12
        cfg = dict(action="RW1C", shape="u2", init=1)
        h = c12.build(cfg)
        comp = compile_harness(h)
        ob = c12.Observer(cfg, h, comp)
        r = bfs((comp.init, ob.init), comp.step, ob.letters, ob.observe)
        blob = json.dumps([sorted(map(repr, r.seen)), r.transitions])
    else:
        blob = "H-not-built"
        try:
            from .checks import c18
            blob = c18.digest()
        except ImportError:
            pass
    print("DIGEST", hashlib.sha1(blob.encode()).hexdigest())


def check_liveness_analyser():
    """The SCC / longest-path analysis of C09 must flag an unfair arbiter even when the per-edge
    next-owner oracle is not consulted: feed it the complete graph of a FIXED-PRIORITY two-initiator
    arbiter (initiator 0 always wins) and of a correct round-robin one."""
    from .checks import c09

    class Fake:
        def __init__(self, n, nxt):
            self.n = n
            self.edges = set()
            for owner in range(n):
                for mask in range(1 << n):
                    for busy in (0, 1):
                        released = not (busy and (mask >> owner) & 1)
                        o2 = nxt(owner, mask) if released else owner
                        self.edges.add((owner, o2, mask, released))

        def owner_of(self, hw):
            return hw

    def fixed_priority(owner, mask):
        others = [k for k in range(2) if (mask >> k) & 1 and k != owner]
        return 0 if (mask & 1) else (others[0] if others else owner)

    def round_robin(owner, mask):
        for d in range(1, 3):
            k = (owner + d) % 3
            if (mask >> k) & 1:
                return k
        return owner

    bad = c09.liveness(None, None, None, Fake(2, fixed_priority), None)
    good = c09.liveness(None, None, None, Fake(3, round_robin), None)
    if bad is None or good is not None:
        print(f"SELFTEST FAIL: liveness analyser: fixed-priority -> {bad}, round-robin -> {good}")
        return False
    print("selftest: liveness analyser flags a fixed-priority arbiter (" + bad["signature"]["what"] + ") and accepts round-robin")
    return True


def main():
    if len(sys.argv) > 2 and sys.argv[1] == "--digest":
        digest_run(sys.argv[2])
        return 0
    t0 = time.time()
    n = check_comb()
    if n is None:
        return 1
    print(f"selftest: combinational evaluator agrees with amaranth.sim on {n} input vectors x 40 operators")
    s = check_seq()
    if s is None:
        return 1
    print(f"selftest: sequential/memory evaluator agrees with amaranth.sim on {s} cycles")
    if not check_liveness_analyser():
        return 1
    for which in ("N", "H"):
        outs = []
        for seed in ("0", "0"):
            env = dict(os.environ, PYTHONHASHSEED=seed, PYTHONDONTWRITEBYTECODE="1")
            p = subprocess.run([sys.executable, "-m", "vf.selftest", "--digest", which],
                               capture_output=True, text=True, env=env, cwd=os.path.dirname(os.path.dirname(os.path.abspath(__file__))))
            outs.append([l for l in p.stdout.splitlines() if l.startswith("DIGEST")])
        if not outs[0] or outs[0] != outs[1]:
            print(f"SELFTEST FAIL: engine {which} digests differ between two processes: {outs}")
            return 1
    print(f"selftest: digests reproducible across processes; {time.time() - t0:.1f}s")
    os.makedirs(os.path.join(os.path.dirname(os.path.dirname(os.path.abspath(__file__))), "evidence"), exist_ok=True)
    return 0


if __name__ == "__main__":
    sys.exit(main())
