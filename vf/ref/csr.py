"""RefCSR: a deliberately boring, cycle-exact reference for a CSR register file.

Registers are (start, end, width, readable, writable) in bus-address units.  The reference has no
shadow registers and no address hashing; it knows the protocol:

* read strobe at the first chunk of a readable register: that register sees r_stb in the same cycle
  and its value is remembered; one cycle after ANY read strobe the bus returns the remembered slice
  (address is a chunk of a readable register, transaction conforming), zero (address is not such a
  chunk) or is unchecked (chunk of a readable register, but the transaction is not conforming);
  with no read strobe in the previous cycle the bus returns zero;
* write strobe at a chunk of a writable register remembers the chunk; a write to the register's last
  address makes that register see w_stb in the NEXT cycle (and only then), with the concatenation
  of the chunks written in this transaction (other slices unchecked).

Conforming = accesses to ONE register, strictly ascending chunk addresses; idle cycles and accesses
to unmapped addresses may be interleaved; any strobe at an address of another register ends the
open transactions.

State is an immutable tuple so it can be part of a BFS node.
"""


class RefCSR:
    INIT = (None, None, ("zero",), None)

    def __init__(self, regs, dw):
        self.regs = [tuple(r) for r in regs]
        self.dw = dw
        self.mask = (1 << dw) - 1
        self.lut = {}
        for k, (s, e, w, rd, wr) in enumerate(self.regs):
            for a in range(s, e):
                assert a not in self.lut, "overlapping registers in the reference"
                self.lut[a] = (k, a - s)

    def step(self, st, addr, r_stb, w_stb, w_data, regval):
        """One clock cycle.  ``regval(k)`` -> value register k presents in THIS cycle.

        Returns (exp_r_stb, exp_r_data, exp_w, new_state):
          exp_r_stb : set of register indices that must see r_stb in this cycle (all others: 0)
          exp_r_data: ('zero',) | ('val', v) | ('any',)  expectation for bus r_data in THIS cycle
          exp_w     : None (no register may see w_stb in this cycle) or (k, ((chunk, data), ...))
        """
        r_cur, w_cur, pend_r, pend_w = st
        tgt = self.lut.get(addr)
        exp_r_stb = ()
        n_r_cur, n_w_cur = r_cur, w_cur
        n_pend_r, n_pend_w = ("zero",), None
        if (r_stb or w_stb) and tgt is not None:
            if r_cur is not None and r_cur[0] != tgt[0]:
                n_r_cur = None
            if w_cur is not None and w_cur[0] != tgt[0]:
                n_w_cur = None
        if r_stb and tgt is not None:
            k, j = tgt
            s, e, w, rd, wr = self.regs[k]
            if rd:
                if j == 0:
                    v = regval(k)
                    exp_r_stb = (k,)
                    n_r_cur = (k, 0, v)
                    n_pend_r = ("val", v & self.mask)
                elif n_r_cur is not None and n_r_cur[0] == k and j > n_r_cur[1]:
                    n_r_cur = (k, j, n_r_cur[2])
                    n_pend_r = ("val", (n_r_cur[2] >> (j * self.dw)) & self.mask)
                else:
                    n_r_cur = None
                    n_pend_r = ("any",)
        if w_stb and tgt is not None:
            k, j = tgt
            s, e, w, rd, wr = self.regs[k]
            if wr:
                if n_w_cur is not None and n_w_cur[0] == k and j > n_w_cur[1]:
                    n_w_cur = (k, j, n_w_cur[2] + ((j, w_data),))
                else:
                    n_w_cur = (k, j, ((j, w_data),))
                if j == e - s - 1:
                    n_pend_w = (k, n_w_cur[2])
                    n_w_cur = None
            else:
                n_w_cur = None
        return exp_r_stb, pend_r, pend_w, (n_r_cur, n_w_cur, n_pend_r, n_pend_w)

    def w_expect(self, k, chunks):
        """(mask, value) that register k's w_data must satisfy given the chunks of a transaction."""
        width = self.regs[k][2]
        full = (1 << width) - 1
        m = v = 0
        for j, d in chunks:
            cm = (self.mask << (j * self.dw)) & full
            m |= cm
            v = (v & ~cm) | ((d << (j * self.dw)) & cm)
        return m, v
