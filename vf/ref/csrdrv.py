"""CSR-conforming driver: the set of bus moves a protocol-abiding CSR initiator may make in the
current RefCSR state.  Transactions start at a register's first chunk and proceed through
consecutive chunks; between chunks the initiator may idle or touch unmapped addresses; it may abandon
a transaction at any point by starting another one; reads, writes and simultaneous read+write."""


def conforming_moves(ref, st, wvals, unmapped=None, misdirected=True, both=True):
    """-> list of (addr, r_stb, w_stb, w_data)"""
    r_cur, w_cur, _, _ = st
    moves = [(0, 0, 0, 0)]
    if unmapped is not None:
        moves.append((unmapped, 1, 0, 0))
        for wd in wvals[:2]:
            moves.append((unmapped, 0, 1, wd))
    for k, (s, e, w, rd, wr) in enumerate(ref.regs):
        if rd:
            moves.append((s, 1, 0, 0))
        elif misdirected:
            moves.append((s, 1, 0, 0))           # read of a write-only register: zero, no effect
        if wr:
            for wd in wvals:
                moves.append((s, 0, 1, wd))
                if rd and both:
                    moves.append((s, 1, 1, wd))
        elif misdirected:
            moves.append((s, 0, 1, wvals[-1]))   # write to a read-only register: no effect
    if r_cur is not None:
        k, j, _ = r_cur
        s, e = ref.regs[k][0], ref.regs[k][1]
        if s + j + 1 < e:
            moves.append((s + j + 1, 1, 0, 0))
    if w_cur is not None:
        k, j, _ = w_cur
        s, e = ref.regs[k][0], ref.regs[k][1]
        if s + j + 1 < e:
            for wd in wvals:
                moves.append((s + j + 1, 0, 1, wd))
                if both and r_cur is not None and r_cur[0] == k and r_cur[1] == j:
                    moves.append((s + j + 1, 1, 1, wd))
    # de-duplicate, keep order
    seen, out = set(), []
    for mv in moves:
        if mv not in seen:
            seen.add(mv); out.append(mv)
    return out


def full_value(ref, k, chunks):
    """Value written by a complete transaction (all chunks present), truncated to the register width."""
    m, v = ref.w_expect(k, chunks)
    width = ref.regs[k][2]
    full = (1 << width) - 1
    complete = (m == full)
    return complete, v
