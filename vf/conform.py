"""Binding the compiled transition function to the implementation.

``simulate(harness, trace)`` runs a list of input tuples through Amaranth's own reference simulator
on a (second, independently built) instance of the harness and returns the probe tuple observed in
every cycle, with exactly the sampling discipline of ``netlist.step``: inputs are applied, the
combinational outputs of that cycle are read, then the clock ticks.
"""
import warnings

from amaranth.hdl import Value as AValue
from amaranth.lib import memory as libmem
from amaranth.sim import Simulator


def simulate(h, trace, probe_names=None, pre_elab=False, design=None):
    """``design``: simulate this already elaborated Design (the very elaboration that was compiled) instead of
    elaborating ``h.top`` again (Fragment.prepare() cannot be applied twice, so the Simulator object is assembled
    around the existing Design; used only as a fallback when a fresh instance behaves differently from the explored
    one, i.e. when the hardware depends on the history of the process)."""
    probes = [(n, p) for n, p in h.probes if probe_names is None or n in probe_names]
    ins = [AValue.cast(s) for _, s in h.inputs]
    result = []

    def getp(ctx, p):
        if isinstance(p, libmem.Memory):
            p = p.data
        if isinstance(p, libmem.MemoryData):
            return tuple(ctx.get(p[i]) for i in range(p.depth))
        v = AValue.cast(p)
        if len(v) == 0:
            return 0
        x = ctx.get(v)
        return x & ((1 << len(v)) - 1)      # two's complement bits, as in the netlist

    async def tb(ctx):
        for letter in trace:
            for sig, v in zip(ins, letter):
                if len(sig):
                    ctx.set(sig, v if not sig.shape().signed else _to_signed(v, len(sig)))
            result.append(tuple(getp(ctx, p) for _, p in probes))
            await ctx.tick()

    with warnings.catch_warnings():
        warnings.simplefilter("ignore")
        if design is not None:
            from amaranth.sim.pysim import PySimEngine
            sim = Simulator.__new__(Simulator)
            sim._design, sim._engine, sim._clocked, sim._running = design, PySimEngine(design), set(), False
            has_sync = "sync" in design.fragment.domains
            if has_sync:
                sim.add_clock(1e-6)

            async def tb2(ctx):
                for letter in trace:
                    for sig, v in zip(ins, letter):
                        if len(sig):
                            ctx.set(sig, v if not sig.shape().signed else _to_signed(v, len(sig)))
                    result.append(tuple(getp(ctx, p) for _, p in probes))
                    if has_sync:
                        await ctx.tick()
                    else:
                        await ctx.delay(1e-6)
            sim.add_testbench(tb2)
            sim.run()
            return result
        if pre_elab:
            # configurations flagged elab_twice: the instance has been elaborated once before it is simulated
            from amaranth.hdl import Fragment
            from amaranth.hdl._ir import build_netlist
            build_netlist(Fragment.get(h.top, None), ports=[])
        # a design without any synchronous logic has no "sync" domain: give the simulator one
        from amaranth.hdl import Module, Signal
        wrap = Module()
        wrap.submodules.harness = h.top
        tick = Signal(name="_vf_tick")
        wrap.d.sync += tick.eq(~tick)
        sim = Simulator(wrap)
        sim.add_clock(1e-6)
        sim.add_testbench(tb)
        sim.run()
    return result


def _to_signed(v, w):
    return v - (1 << w) if v >> (w - 1) else v


def crosscheck(build, cfg, compiled, traces, probe_names=None):
    """Replay traces (lists of input tuples) on a fresh instance in the simulator and compare every
    probe in every cycle with the compiled step function. Returns (n_cycles, mismatch or None)."""
    cycles = 0
    names = compiled.probe_names if probe_names is None else probe_names
    for trace in traces:
        h2 = build(cfg)
        got = simulate(h2, trace, probe_names=set(names))
        st = compiled.init
        for t, letter in enumerate(trace):
            outs, st = compiled.step(st, letter)
            cycles += 1
            if tuple(outs) != got[t]:
                diff = [(n, a, b) for n, a, b in zip(names, outs, got[t]) if a != b]
                return cycles, dict(cycle=t, trace=[list(l) for l in trace[:t + 1]], diff=diff)
    return cycles, None
