"""Engine H: breadth-first search over API call histories, executed on real objects.

A state is the history reaching it; ``execute(history, parent_key)`` rebuilds fresh real objects,
replays the calls, runs the reference model alongside and returns ``(canon, err)`` where ``canon`` is a
hashable canonical observation (public queries only) and ``err`` describes an oracle failure of the
LAST call (or None).  ``parent_key`` is the canon of ``history[:-1]`` (for failure atomicity).
States with equal ``canon`` are merged (argument per check: equal observations => equal futures under
the alphabet).  Levels are expanded on a fork()ed worker pool; the result does not depend on
scheduling (chunks are merged in order)."""
import multiprocessing as mp
import time

_G = {}


class HResult:
    def __init__(self):
        self.states = 0
        self.transitions = 0
        self.max_depth = 0
        self.capped = None
        self.violation = None
        self.level_sizes = []
        self.samples = []
        self.outcomes = {}


def _expand(chunk):
    execute, letters_for = _G["execute"], _G["letters_for"]
    out, n, outcomes = [], 0, {}
    local = set()
    for hist, key in chunk:
        for letter in letters_for(hist):
            h2 = hist + (letter,)
            k2, err = execute(h2, key)
            n += 1
            c = "violation" if err is not None else ("changed" if k2 != key else "unchanged")
            outcomes[c] = outcomes.get(c, 0) + 1
            if err is not None:
                return dict(violation=dict(err=err, history=list(h2)), n=n, new=out, outcomes=outcomes)
            if k2 not in local:
                local.add(k2)
                out.append((h2, k2))
    return dict(violation=None, n=n, new=out, outcomes=outcomes)


def hbfs(letters, execute, *, max_depth, max_states=5_000_000, max_seconds=3600.0, letters_for=None,
         jobs=1, chunk=64):
    r = HResult()
    t0 = time.time()
    key0, err = execute((), None)
    if err is not None:
        r.violation = dict(err=err, history=[])
        return r
    _G["execute"] = execute
    _G["letters_for"] = letters_for if letters_for is not None else (lambda hist: letters)
    seen = {key0}
    frontier = [((), key0)]
    depth = 0
    pool = mp.get_context("fork").Pool(jobs) if jobs > 1 else None
    try:
        while frontier and depth < max_depth:
            chunks = [frontier[i:i + chunk] for i in range(0, len(frontier), chunk)]
            results = pool.imap(_expand, chunks) if pool else map(_expand, chunks)
            nxt = []
            for res in results:
                r.transitions += res["n"]
                for c, k in res["outcomes"].items():
                    r.outcomes[c] = r.outcomes.get(c, 0) + k
                if res["violation"] is not None and r.violation is None:
                    r.violation = res["violation"]
                for h2, k2 in res["new"]:
                    if k2 not in seen:
                        seen.add(k2)
                        nxt.append((h2, k2))
            if r.violation is not None:
                r.states = len(seen); r.max_depth = depth + 1
                return r
            depth += 1
            r.level_sizes.append(len(nxt))
            if nxt:
                r.samples = [list(nxt[0][0]), list(nxt[-1][0])]
            frontier = nxt
            if len(seen) > max_states or time.time() - t0 > max_seconds:
                r.capped = "states" if len(seen) > max_states else "time"
                break
    finally:
        if pool:
            pool.terminate()
    if frontier and depth >= max_depth and not r.capped:
        r.capped = f"depth {max_depth}"
    r.states = len(seen)
    r.max_depth = depth
    return r
