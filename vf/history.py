"""Engine H: breadth-first search over API call histories, executed on real objects.

A state is the history reaching it; ``execute(history)`` rebuilds fresh real objects, replays the
calls, runs the reference model alongside and returns ``(canon, err)`` where ``canon`` is a hashable
canonical observation (public queries only) and ``err`` describes an oracle failure (or None).
States with equal ``canon`` are merged (argument per check: equal observations => equal futures
under the alphabet)."""
import time


class HResult:
    def __init__(self):
        self.states = 0
        self.transitions = 0
        self.max_depth = 0
        self.capped = None
        self.violation = None
        self.level_sizes = []
        self.samples = []
        self.outcomes = {}


def hbfs(letters, execute, *, max_depth, max_states=5_000_000, max_seconds=3600.0, letters_for=None,
         classify=None):
    r = HResult()
    t0 = time.time()
    key0, err = execute(())
    if err is not None:
        r.violation = dict(err=err, history=[])
        return r
    seen = {key0}
    frontier = [()]
    depth = 0
    while frontier and depth < max_depth:
        nxt = []
        for hist in frontier:
            for letter in (letters if letters_for is None else letters_for(hist)):
                h2 = hist + (letter,)
                key, err = execute(h2)
                r.transitions += 1
                if classify is not None:
                    c = classify(key, err)
                    r.outcomes[c] = r.outcomes.get(c, 0) + 1
                if err is not None:
                    r.violation = dict(err=err, history=list(h2))
                    r.states = len(seen); r.max_depth = depth + 1
                    return r
                if key not in seen:
                    seen.add(key)
                    nxt.append(h2)
            if len(seen) > max_states or time.time() - t0 > max_seconds:
                r.capped = "states" if len(seen) > max_states else "time"
                break
        if r.capped:
            break
        depth += 1
        r.level_sizes.append(len(nxt))
        if nxt:
            r.samples = [list(nxt[0]), list(nxt[-1])]
        frontier = nxt
    if frontier and depth >= max_depth:
        r.capped = r.capped or f"depth {max_depth}"
    r.states = len(seen)
    r.max_depth = depth
    return r
