"""Configuration grammar: register layouts for csr.Multiplexer (used by C04, C05, C06, C19).

A layout is dict(aw, dw, align, regs=[dict(w, acc, addr, size, al)], ov):
  w    register width in bits (0 .. several bus words, not multiples of dw)
  acc  'r' | 'w' | 'rw'
  addr explicit address or None (implicit placement)
  size extra chunks beyond ceil(w/dw) (padding), usually 0
  al   per-call alignment or None
  ov   shadow_overlaps (None, 0, 1, 2)
Only layouts that the real MemoryMap accepts are kept (decided by trying).
"""
import itertools


def stub_register(width, access, name="reg"):
    from amaranth import Module
    from amaranth.lib import wiring
    from amaranth.lib.wiring import Out
    from amaranth_soc import csr

    class Stub(wiring.Component):
        def __init__(self):
            super().__init__({"element": Out(csr.Element.Signature(width, access))})

        def elaborate(self, platform):
            return Module()

    return Stub()


def make_map(layout, hook=None):
    """Build the real MemoryMap with stub registers; returns (memory_map, [stub...]).
    Raises whatever the library raises for layouts it refuses.  If the layout has a key "late" = k, `hook(mm)`
    is called just before register k is added (the multiplexer is constructed while its map is still growing:
    csr.Multiplexer does not freeze the map it is given)."""
    from amaranth_soc.memory import MemoryMap
    mm = MemoryMap(addr_width=layout["aw"], data_width=layout["dw"], alignment=layout.get("align", 0))
    stubs = []
    for k, r in enumerate(layout["regs"]):
        if hook is not None and layout.get("late") == k:
            hook(mm)
        stub = stub_register(r["w"], r["acc"])
        need = max(1, -(-r["w"] // layout["dw"]))
        kw = {}
        if r.get("al") is not None:
            kw["alignment"] = r["al"]
        mm.add_resource(stub, name=(f"{layout.get('prefix', 'r')}{k}",), size=need + r.get("size", 0), addr=r.get("addr"), **kw)
        stubs.append(stub)
    return mm, stubs


def accepted(layout):
    try:
        make_map(layout)
        return True
    except (ValueError, TypeError):
        return False


def _reg(w, acc, addr=None, size=0, al=None):
    return dict(w=w, acc=acc, addr=addr, size=size, al=al)


def layouts(tier):
    out = []

    def add(aw, dw, align, regs, ovs):
        for ov in ovs:
            out.append(dict(aw=aw, dw=dw, align=align, regs=[dict(r) for r in regs], ov=ov))

    quick = tier == "quick"
    for dw in (1, 2):
        widths = sorted({0, 1, dw, dw + 1, 2 * dw + 1})
        aw = 3
        # --- one register ---------------------------------------------------------------------
        for w, acc in itertools.product(widths, ("r", "w", "rw")):
            for addr in (None, 1, 3):
                add(aw, dw, 0, [_reg(w, acc, addr)], (None, 0))
            add(aw, dw, 1, [_reg(w, acc)], (None,))                 # padded by map alignment
            add(aw, dw, 0, [_reg(w, acc, None, 1)], (None,))        # padded by size
            add(aw, dw, 0, [_reg(w, acc, 2, 0, 1)], (None, 0))      # per-call alignment
        # --- two registers: collisions in the shadow hash ----------------------------------------
        pair_w = [(1, dw + 1), (dw + 1, 2 * dw + 1), (2 * dw + 1, 1), (dw + 1, dw + 1), (0, dw + 1)]
        pair_acc = [("rw", "rw"), ("r", "w"), ("rw", "r"), ("w", "rw")]
        if quick:
            pair_acc = pair_acc[:3]
        for (w0, w1), (a0, a1) in itertools.product(pair_w, pair_acc):
            for addr0, addr1 in ((None, None), (1, None), (2, None), (0, 5), (3, None), (1, 4)):
                add(aw, dw, 0, [_reg(w0, a0, addr0), _reg(w1, a1, addr1)], (None, 0, 1))
            add(aw, dw, 1, [_reg(w0, a0), _reg(w1, a1)], (None, 0))
        # the exact shape of finding F2: ranges 2..3 and 3..5
        add(aw, dw, 0, [_reg(dw, "rw", 2), _reg(2 * dw, "rw", 3)], (None, 0, 1, 2))
        # --- three registers around shared chunks -------------------------------------------------
        triples = [
            [_reg(dw + 1, "rw"), _reg(1, "rw"), _reg(dw + 1, "rw")],
            [_reg(1, "rw", 1), _reg(dw + 1, "rw", 2), _reg(dw + 1, "rw", 5)],
            [_reg(2 * dw + 1, "r", 1), _reg(1, "w", 4), _reg(dw + 1, "rw", 6)],
            [_reg(dw + 1, "rw", 0), _reg(dw + 1, "r", 3), _reg(dw, "w", 5)],
        ]
        for regs in triples:
            add(aw, dw, 0, regs, (None, 0, 1, 2) if not quick else (None, 0, 1))
        # registers spanning many bus words (7-8 chunks) next to a small one, aligned and unaligned
        if dw == 1 or not quick:
            add(4, dw, 0, [_reg((7 if not quick else 5) * dw + 1, "rw", None), _reg(1, "rw", None)], (None, 0))
            add(4, dw, 0, [_reg(1, "rw", 1), _reg(6 * dw + 1, "rw", 2)], (None, 0) if quick else (None, 0, 1))
            add(4, dw, 0, [_reg(5 * dw, "r", 3), _reg(5 * dw, "w", 9)], (None,))
        if not quick:
            # thorough: 4 address bits, wider registers, alignment 2
            for (w0, w1) in ((3 * dw + 1, dw + 1), (dw + 1, 3 * dw + 1), (4 * dw, 1)):
                for addr0, addr1 in ((None, None), (1, None), (3, 9), (5, None)):
                    add(4, dw, 0, [_reg(w0, "rw", addr0), _reg(w1, "rw", addr1)], (None, 0, 1))
            add(4, dw, 2, [_reg(dw + 1, "rw"), _reg(1, "rw")], (None, 0))
            for regs in triples:
                add(4, dw, 0, [dict(r, addr=None if r["addr"] is None else r["addr"] + 3) for r in regs], (None, 0))
    # counts that are not powers of two: five to seven one-word registers in a row (all sharing one shadow chunk under
    # the default limit), registers of five to seven bus words, and a padded register right above an unpadded one
    for n in (5, 6, 7):
        add(3, 1, 0, [_reg(1, "rw") for _ in range(n)], (None, 0) if n == 5 else (None,))
        add(3, 1, 0, [_reg(n, "rw", 0)], (None,))
    add(3, 2, 0, [_reg(2, "r") for _ in range(5)], (None,))
    add(3, 1, 0, [_reg(1, "r") for _ in range(5)], (1, 2))
    add(3, 2, 0, [_reg(2, "w") for _ in range(6)], (None,))
    add(3, 1, 0, [_reg(5, "r", 0), _reg(1, "rw", 6)], (None, 0))
    add(3, 1, 0, [_reg(6, "w", 1), _reg(1, "rw", 0)], (None,))
    for dw in (1, 2):
        add(3, dw, 0, [_reg(dw, "rw", 1), _reg(dw, "rw", None, 0, 1)], (None, 0, 1))
        add(3, dw, 0, [_reg(dw, "w", 1), _reg(dw + 1, "rw", None, 0, 2)], (None, 0))
        add(3, dw, 0, [_reg(dw, "rw", 0), _reg(dw, "rw", None, 0, 1), _reg(dw, "rw", 5), _reg(dw, "rw", None, 0, 1)], (None,))
    # nine and ten address bits: registers beyond address 0x100 (bus addresses from a thinned set, see addr_set)
    out.append(dict(aw=9, dw=2, align=0, ov=None, regs=[_reg(2, "r", 0x001), _reg(2, "rw", 0x101), _reg(3, "rw", 0x1FE)],
                    addr_set=[0, 1, 2, 0xFE, 0xFF, 0x100, 0x101, 0x102, 0x1FE, 0x1FF]))
    out.append(dict(aw=10, dw=2, align=0, ov=0, regs=[_reg(2, "rw", 0x201), _reg(4, "rw", 0x3FE), _reg(2, "w", 0x101)],
                    addr_set=[0, 1, 0x101, 0x201, 0x202, 0x301, 0x3FE, 0x3FF, 0x1FE, 0x200]))
    # byte-wide bus (the width real systems use): write data and register values from token sets
    for regs in ([_reg(8, "rw", None), _reg(12, "rw", None)], [_reg(20, "rw", 1), _reg(8, "r", None)],
                 [_reg(16, "w", 2), _reg(9, "rw", 5)], [_reg(24, "rw", 3), _reg(1, "rw", None)]):
        add(3, 8, 0, regs, (None, 0))
    add(3, 8, 1, [_reg(12, "rw", None), _reg(8, "rw", None)], (None,))
    if not quick:
        add(4, 16, 0, [_reg(40, "rw", 1), _reg(16, "rw", None), _reg(3, "r", None)], (None, 0, 1))
        add(4, 8, 0, [_reg(33, "rw", 2), _reg(8, "w", None), _reg(8, "r", 9)], (None, 0))
    if not quick:
        # systematic: EVERY placement of two registers on 3 address bits (widths 1 / dw+1 / 2*dw+1, four access
        # pairings, implicit or any explicit address each), three sharing limits; and three registers of
        # widths 1 / dw+1 at every pair of explicit addresses for the first two
        for dw in (1, 2):
            ws = (1, dw + 1, 2 * dw + 1)
            for (w0, w1), (a0, a1) in itertools.product(itertools.product(ws, ws), (("rw", "rw"), ("r", "w"), ("w", "r"), ("rw", "r"))):
                for addr0, addr1 in itertools.product([None] + list(range(8)), repeat=2):
                    add(3, dw, 0, [_reg(w0, a0, addr0), _reg(w1, a1, addr1)], (None, 0, 1))
            for w0, w1, w2 in itertools.product((1, dw + 1), repeat=3):
                for addr0, addr1 in itertools.product(range(0, 6), repeat=2):
                    add(3, dw, 0, [_reg(w0, "rw", addr0), _reg(w1, "rw", addr1), _reg(w2, "rw", None)], (None, 0))
    # de-duplicate and keep what the real MemoryMap accepts
    seen, keep = set(), []
    for l in out:
        key = repr(l)
        if key in seen:
            continue
        seen.add(key)
        if accepted(l):
            keep.append(l)
    return keep
