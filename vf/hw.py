"""Generic driver for one hardware configuration: build -> compile -> BFS with observer ->
cross-check in amaranth.sim -> (violation re-derived in the simulator) -> result dict."""
import random
import time
import zlib

from .common import ToolFailure, is_refusal, describe_exc
from .netlist import compile_harness, ToolError
from .explore import bfs
from .conform import simulate
from amaranth.hdl import Value as AValue


def build_or_classify(build, cfg):
    """Returns (harness, None) or (None, result-dict) for refusals / internal errors."""
    try:
        return build(cfg), None
    except ToolError:
        raise
    except Exception as e:
        if is_refusal(e):
            return None, dict(refused=True, refusal=describe_exc(e))
        d = describe_exc(e)
        return None, dict(violation=dict(
            kind="internal_error", err=d,
            signature=dict(kind="internal_error", type=d["type"], where=d["where"])))


def rederive(build, make_observer, cfg, trace, only, pass_hw=False):
    """Replay a witness in amaranth.sim on a fresh instance and re-evaluate the oracle on the
    simulator's values. Returns (err, cycle) of the first oracle failure, or (None, None)."""
    h2 = build(cfg)
    if callable(only):
        only = only(h2)
    names = [n for n, _ in h2.probes if only is None or n in only]
    pre = bool(isinstance(cfg, dict) and cfg.get("elab_twice"))
    got = simulate(h2, trace, probe_names=set(names), pre_elab=pre)
    if pass_hw:
        return _rederive_hw(build, make_observer, cfg, trace, only, got)

    class _C:   # minimal stand-in for Compiled: observers only use the name -> index maps
        pass
    c = _C()
    c.probe_names = names
    c.probe_index = {n: k for k, n in enumerate(names)}
    c.in_names = [n for n, _ in h2.inputs]
    c.in_index = {n: k for k, n in enumerate(c.in_names)}
    c.in_widths = [len(AValue.cast(s)) for _, s in h2.inputs]
    c.support = list(c.in_names)
    ob = make_observer(cfg, h2, c)
    st = ob.init
    for t, (letter, outs) in enumerate(zip(trace, got)):
        err, st = ob.observe(st, tuple(letter), tuple(outs))
        if err is not None:
            return err, t
    return None, None


def _rederive_hw(build, make_observer, cfg, trace, only, got):
    """Observers that look at the hardware state (owner inference): states come from the compiled
    netlist of a fresh instance, every checked value from the simulator; the two must agree on the
    trace and on every probe letter the observer uses for its inference."""
    h3 = build(cfg)
    comp = compile_harness(h3, only=only)
    ob = make_observer(cfg, h3, comp)
    st = ob.init
    hw = comp.init
    for t, letter in enumerate(trace):
        letter = tuple(letter)
        outs, hw2 = comp.step(hw, letter)
        if tuple(outs) != tuple(got[t]):
            raise ToolFailure(f"compiled netlist and amaranth.sim disagree at cycle {t} of the witness")
        for pl in getattr(ob, "probe_letters", lambda: [])():
            g = simulate(build(cfg), [tuple(l) for l in trace[:t]] + [pl], probe_names=set(comp.probe_names),
                         pre_elab=bool(isinstance(cfg, dict) and cfg.get("elab_twice")))
            o, _ = comp.step(hw, pl)
            if tuple(o) != tuple(g[-1]):
                raise ToolFailure("compiled netlist and amaranth.sim disagree on an owner-inference probe")
        err, st = ob.observe(st, letter, tuple(got[t]), hw, hw2)
        if err is not None:
            return err, t
        hw = hw2
    return None, None


def explore_hw(build, make_observer, cfg, tier, seed, *, only=None, max_states=1_500_000,
               max_seconds=1500.0, max_depth=None, conf_frac=None, conf_cap=None, on_edge=None,
               post=None, expect_support=None, pass_hw=False):
    t0 = time.time()
    h, early = build_or_classify(build, cfg)
    if h is None:
        return early
    only_arg = only
    if callable(only):
        only = only(h)
    try:
        comp = compile_harness(h, only=only)
        if isinstance(cfg, dict) and cfg.get("elab_twice"):
            # "simulate, then synthesise": the SAME instance is elaborated again and the behaviour of the
            # second elaboration is what gets explored.  Whether a second elaboration is POSSIBLE is C19's
            # question, not this property's: if it fails, the configuration is skipped here.
            try:
                comp = compile_harness(h, only=only)
            except ToolError:
                raise
            except Exception as e:
                return dict(refused=True, refusal=dict(type=type(e).__name__, message="second elaboration failed (C19's subject)", where=""))
    except ToolError as e:
        raise ToolFailure(f"netlist: {e}")
    except Exception as e:
        # elaboration of an accepted configuration failed: the component cannot satisfy a
        # "for every configuration" property (see DESIGN.md 3.7)
        if is_refusal(e):
            return dict(refused=True, refusal=describe_exc(e))
        d = describe_exc(e)
        return dict(violation=dict(kind="internal_error", err=d,
                                   signature=dict(kind="internal_error", type=d["type"],
                                                  where=d["where"])))
    ob = make_observer(cfg, h, comp)
    r = bfs((comp.init, ob.init), comp.step, ob.letters, ob.observe, max_states=max_states,
            max_seconds=max_seconds, max_depth=max_depth, prefixes=(ob.prefixes() if hasattr(ob, "prefixes") else ()),
            on_edge=(None if on_edge is None else on_edge(ob)), pass_hw=pass_hw)
    t_bfs = time.time() - t0
    res = dict(states=r.states, transitions=r.transitions, max_depth=r.max_depth,
               capped=r.capped, outcomes=r.outcomes, flops_in_cone=comp.n_flops,
               flops_total=comp.n_flops_total, flop_bits=comp.n_flop_bits, support=comp.support,
               cells=comp.n_cells, t_bfs=round(t_bfs, 2))
    if r.violation is not None:
        trace = [list(l) for l in r.violation["trace"]]
        try:
            err, cyc = rederive(build, make_observer, cfg, trace, only_arg, pass_hw=pass_hw)
        except ToolFailure:
            err, cyc = None, None
        if err is None:
            # not reproduced on a freshly built instance: is it reproduced by the simulator on the explored
            # elaboration itself?  Then the hardware depends on the history of the process (module-level state).
            err, cyc = _same_design_confirms(h, comp, trace, r.violation, cfg)
        sig = dict(kind="oracle")
        if isinstance(err, dict) and "signature" in err:
            sig = err["signature"]
        res["violation"] = dict(kind="hw", err=err, trace=trace, cycle=cyc,
                                inputs=comp.in_names, probes=comp.probe_names, signature=sig)
        return res
    if post is not None:
        v = post(cfg, h, comp, ob, r)
        if v is not None:
            res["violation"] = v
            return res
    # --- bind to the implementation: replay BFS-tree paths in the stock simulator -----------------
    frac = conf_frac if conf_frac is not None else (0.25 if tier == "quick" else 1.0)
    cap = conf_cap if conf_cap is not None else (4.0 if tier == "quick" else 40.0)
    budget = min(cap, max(0.6, frac * t_bfs))
    rng = random.Random(seed * 1000003 + zlib.crc32(repr(cfg).encode()))
    leaves = r.leaves()
    leaves.sort(key=lambda n: repr(n))
    rng.shuffle(leaves)
    t1 = time.time()
    covered = set()
    traces = cycles = 0
    for leaf in leaves:
        path = r.path(leaf)
        # one extra, seed-chosen, (usually non-tree) transition appended to the tree path
        extra = list(ob.letters(leaf[1]))
        if extra:
            path = path + [extra[rng.randrange(len(extra))]]
        if not path:
            continue
        h2 = build(cfg)
        got = simulate(h2, path, probe_names=set(comp.probe_names), pre_elab=bool(isinstance(cfg, dict) and cfg.get("elab_twice")))
        st = comp.init
        for t, letter in enumerate(path):
            outs, st = comp.step(st, letter)
            if tuple(outs) != got[t]:
                diff = [(n, a, b) for n, a, b in zip(comp.probe_names, outs, got[t]) if a != b]
                same = simulate(h, path[:t + 1], probe_names=set(comp.probe_names), design=comp.design)
                st2 = comp.init
                for t2, l2 in enumerate(path[:t + 1]):
                    o2, st2 = comp.step(st2, l2)
                    if tuple(o2) != same[t2]:
                        raise ToolFailure(f"compiled netlist and amaranth.sim disagree at cycle {t2}: {diff} "
                                          f"cfg={cfg!r} trace={path[:t2 + 1]!r}")
                # the compiled netlist is faithful to ITS elaboration; a fresh instance of the same configuration is
                # different hardware.  Judge the fresh instance with the oracle as well.
                try:
                    err, cyc = rederive(build, make_observer, cfg, [list(l) for l in path[:t + 1]], only_arg, pass_hw=pass_hw)
                except ToolFailure:
                    err, cyc = None, None
                if err is not None:
                    sig = err.get("signature", dict(kind="oracle")) if isinstance(err, dict) else dict(kind="oracle")
                    err = dict(err, note="found on a second instance of the same configuration built in the same process "
                                         "(the explored first instance satisfies the oracle on this path)") if isinstance(err, dict) else err
                    res["violation"] = dict(kind="hw", err=err, trace=[list(l) for l in path[:t + 1]], cycle=cyc,
                                            inputs=comp.in_names, probes=comp.probe_names, signature=sig)
                    return res
                res["instance_dependent_hardware"] = res.get("instance_dependent_hardware", 0) + 1
                break
        cycles += len(path)
        traces += 1
        node = leaf
        while node is not None and node not in covered:
            covered.add(node)
            p = r.seen[node]
            node = p[0] if p is not None else None
        if time.time() - t1 > budget:
            break
    res.update(traces_validated=traces, cycles_validated=cycles, nodes_on_validated_traces=len(covered))
    # sample: the longest tree path, with the probe values the netlist produced
    if leaves:
        leaf = max(leaves[:50], key=lambda n: len(r.path(n)))
        path = r.path(leaf)[:10]
        st = comp.init
        rows = []
        for letter in path:
            outs, st = comp.step(st, letter)
            rows.append(dict(inp=dict(zip(comp.in_names, letter)),
                             out={n: (o if not isinstance(o, tuple) else list(o))
                                  for n, o in zip(comp.probe_names, outs)}))
        res["sample"] = dict(cfg=cfg, trace=rows)
    res["t_total"] = round(time.time() - t0, 2)
    return res


def _same_design_confirms(h, comp, trace, violation, cfg):
    same = simulate(h, [tuple(l) for l in trace], probe_names=set(comp.probe_names), design=comp.design)
    st = comp.init
    for t, l in enumerate(trace):
        o, st = comp.step(st, tuple(l))
        if tuple(o) != same[t]:
            raise ToolFailure(f"violation {violation['err']!r} found on the compiled netlist is not reproduced by "
                              f"amaranth.sim, and the compiled netlist disagrees with the simulation of its own "
                              f"elaboration at cycle {t} (cfg={cfg!r})")
    err = violation["err"]
    if isinstance(err, dict):
        err = dict(err, note='confirmed by amaranth.sim on the explored elaboration itself; a freshly built instance of the same configuration behaves differently, i.e. the generated hardware depends on what was built or elaborated earlier in the process')
    return err, len(trace) - 1


def aggregate(results):
    """Sum the per-configuration results into evidence coverage."""
    agg = dict(states=0, transitions=0, traces_validated_against_impl=0, cycles_validated=0,
               nodes_on_validated_traces=0, configs=len(results), configs_refused=0,
               configs_capped=0, configs_exhaustive=0, distinct_outcomes=0, max_depth=0)
    samples = []
    for r in results:
        if r.get("refused"):
            agg["configs_refused"] += 1
            continue
        agg["states"] += r.get("states", 0)
        agg["transitions"] += r.get("transitions", 0)
        agg["traces_validated_against_impl"] += r.get("traces_validated", 0)
        agg["cycles_validated"] += r.get("cycles_validated", 0)
        agg["nodes_on_validated_traces"] += r.get("nodes_on_validated_traces", 0)
        agg["distinct_outcomes"] += r.get("outcomes", 0)
        agg["max_depth"] = max(agg["max_depth"], r.get("max_depth", 0))
        if r.get("capped"):
            agg["configs_capped"] += 1
        elif "states" in r:
            agg["configs_exhaustive"] += 1
        if "sample" in r and len(samples) < 3:
            samples.append(r["sample"])
    agg["samples"] = samples
    agg["exhaustive"] = agg["configs_capped"] == 0
    return agg


def explore_comb(build, make_ref, cfg, tier, seed, *, letter_cap=40000, sim_budget=None):
    """Combinational (single-state) components with wide, independent input groups: every checked
    output is enumerated over the UNION of its structural input support in the netlist and the
    support its reference declares; all other inputs are held at 0.  ``make_ref(cfg, h, comp)``
    returns an object with
        declared : {probe: set(input names)}
        alphabet(name, wide) -> list of values
        expected(letter_tuple) -> {probe: value or None}
    """
    import itertools
    t0 = time.time()
    h, early = build_or_classify(build, cfg)
    if h is None:
        return early
    twice = bool(isinstance(cfg, dict) and cfg.get("elab_twice"))
    try:
        comp = compile_harness(h)
        if twice:
            # the SAME instance elaborated again; the second elaboration is what gets checked (whether a second
            # elaboration is possible at all is C19's question: the configuration is skipped here if it is not)
            try:
                comp = compile_harness(h)
            except ToolError:
                raise
            except Exception as e:
                return dict(refused=True, refusal=dict(type=type(e).__name__, message="second elaboration failed (C19's subject)", where=""))
    except ToolError as e:
        raise ToolFailure(f"netlist: {e}")
    except Exception as e:
        if is_refusal(e):
            return dict(refused=True, refusal=describe_exc(e))
        d = describe_exc(e)
        return dict(violation=dict(kind="internal_error", err=d,
                                   signature=dict(kind="internal_error", type=d["type"], where=d["where"])))
    if comp.n_flops or comp.n_mems:
        # state exists in the cone: the caller should have used explore_hw
        raise ToolFailure(f"explore_comb: design has state in the cone of the probes (cfg={cfg!r})")
    ref = make_ref(cfg, h, comp)
    groups = {}
    for p in comp.probe_names:
        sup = set(comp.support_of([p])) | set(ref.declared.get(p, ()))
        groups.setdefault(tuple(n for n in comp.in_names if n in sup), []).append(p)
    n_in = len(comp.in_names)
    evals = 0
    thinned = 0
    sampled = []
    rng = random.Random(seed * 7919 + zlib.crc32(repr(cfg).encode()))
    outcomes = set()
    for sup, probes in sorted(groups.items()):
        idx = [comp.in_index[n] for n in sup]
        doms = [ref.alphabet(n, True) for n in sup]
        size = 1
        for d in doms:
            size *= len(d)
        if size > letter_cap:
            doms = [ref.alphabet(n, False) for n in sup]
            thinned += 1
        pidx = [comp.probe_index[p] for p in probes]
        first = True
        for vals in itertools.product(*doms):
            letter = [0] * n_in
            for i, v in zip(idx, vals):
                letter[i] = v
            letter = tuple(letter)
            outs, _ = comp.step(comp.init, letter)
            exp = ref.expected(letter)
            evals += 1
            if "__error__" in exp:
                err = dict(msg=exp["__error__"], signature=dict(kind="metadata"))
                return dict(states=1, transitions=evals, violation=dict(
                    kind="comb", err=err, trace=[list(letter)], inputs=comp.in_names, probes=comp.probe_names,
                    signature=err["signature"]))
            if len(outcomes) < 20000:
                outcomes.add(tuple(outs[i] for i in pidx))
            for p, i in zip(probes, pidx):
                e = exp.get(p)
                if e is not None and outs[i] != e:
                    # re-derive in the simulator
                    got = simulate(build(cfg), [letter], probe_names=set(comp.probe_names), pre_elab=twice)[0]
                    note = None
                    if got[i] != outs[i]:
                        same = simulate(h, [letter], probe_names=set(comp.probe_names), design=comp.design)[0]
                        if same[i] != outs[i]:
                            raise ToolFailure(f"compiled netlist and amaranth.sim disagree on {p} (cfg={cfg!r})")
                        note = 'confirmed by amaranth.sim on the explored elaboration itself; a freshly built instance of the same configuration behaves differently, i.e. the generated hardware depends on what was built or elaborated earlier in the process'
                    err = dict(msg=f"{p}={outs[i]:#x} expected {e:#x}" + (f" [{note}]" if note else ""), inputs={n: letter[comp.in_index[n]] for n in comp.in_names if letter[comp.in_index[n]]},
                               signature=dict(kind="oracle", what=ref.what(p) if hasattr(ref, "what") else p))
                    return dict(states=1, transitions=evals, violation=dict(
                        kind="comb", err=err, trace=[list(letter)], inputs=comp.in_names, probes=comp.probe_names,
                        signature=err["signature"]))
            if (first or rng.random() < 0.02) and len(sampled) < 400:
                sampled.append(letter)
            first = False
    # bind to the implementation: the sampled letters as ONE trace through amaranth.sim
    cycles = 0
    if sampled:
        got = simulate(build(cfg), sampled, probe_names=set(comp.probe_names), pre_elab=twice)
        for letter, g in zip(sampled, got):
            outs, _ = comp.step(comp.init, letter)
            if tuple(outs) != tuple(g):
                diff = [(n, a, b) for n, a, b in zip(comp.probe_names, outs, g) if a != b]
                same = simulate(h, [letter], probe_names=set(comp.probe_names), design=comp.design)[0]
                if tuple(same) != tuple(outs):
                    raise ToolFailure(f"compiled netlist and amaranth.sim disagree: {diff} cfg={cfg!r} letter={letter!r}")
                # a second instance of the same configuration is different hardware: judge it with the oracle too
                exp = ref.expected(letter)
                for pn, i in comp.probe_index.items():
                    e = exp.get(pn)
                    if e is not None and g[i] != e:
                        err = dict(msg=f"{pn}={g[i]:#x} expected {e:#x} [on a second instance of the same configuration built "
                                       f"in the same process; the first instance satisfies the oracle]",
                                   inputs={n: letter[comp.in_index[n]] for n in comp.in_names if letter[comp.in_index[n]]},
                                   signature=dict(kind="oracle", what=ref.what(pn) if hasattr(ref, "what") else pn))
                        return dict(states=1, transitions=evals, violation=dict(
                            kind="comb", err=err, trace=[list(letter)], inputs=comp.in_names, probes=comp.probe_names,
                            signature=err["signature"]))
                break
        cycles = len(sampled)
    res = dict(states=1, transitions=evals, max_depth=1, capped=None, outcomes=len(outcomes),
               traces_validated=1 if sampled else 0, cycles_validated=cycles, nodes_on_validated_traces=1,
               support_groups=len(groups), groups_thinned=thinned, flops_in_cone=0, flops_total=comp.n_flops_total)
    if sampled:
        l = sampled[0]
        outs, _ = comp.step(comp.init, l)
        res["sample"] = dict(cfg=cfg, trace=[dict(inp=dict(zip(comp.in_names, l)), out=dict(zip(comp.probe_names, outs)))])
    res["t_total"] = round(time.time() - t0, 2)
    return res


def replay_comb(build, make_ref, cfg, trace):
    h2 = build(cfg)
    got = simulate(h2, [tuple(l) for l in trace], pre_elab=bool(isinstance(cfg, dict) and cfg.get("elab_twice")))
    h3 = build(cfg)
    comp = compile_harness(h3)
    ref = make_ref(cfg, h3, comp)
    for t, (letter, g) in enumerate(zip(trace, got)):
        exp = ref.expected(tuple(letter))
        if "__error__" in exp:
            return dict(msg=exp["__error__"]), t
        for p, i in comp.probe_index.items():
            e = exp.get(p)
            if e is not None and g[i] != e:
                return dict(msg=f"{p}={g[i]:#x} expected {e:#x}"), t
    return None, None
