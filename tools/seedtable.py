#!/usr/bin/env python3
"""Prints the markdown table 'seeded change -> checks that catch it' from seeded/*/meta.json."""
import glob, json, os, re
ROOT = os.path.dirname(os.path.dirname(os.path.abspath(__file__)))
rows = []
for f in sorted(glob.glob(os.path.join(ROOT, "seeded", "*", "meta.json"))):
    m = json.load(open(f))
    notes = m.get("needs_to_manifest", "")
    first = re.sub(r"[#*`]", "", notes)[:150]
    ran = ", ".join(sorted(m["results"]))
    rows.append(f"| {m['id']} | {', '.join(m.get('files', []))[:60].replace('amaranth_soc/', '')} | {', '.join(m['caught_by']) or '**none**'} | {ran} |")
print("| seeded change | file(s) | caught by (quick tier) | checks run |")
print("|---|---|---|---|")
print("\n".join(rows))
