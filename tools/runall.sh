#!/bin/bash
# tools/runall.sh [tier] [seed]  - every registered check once; prints id, exit code, wall seconds
tier=${1:-quick}; seed=${2:-0}
cd "$(dirname "$0")/.."
for c in C01 C02 C03 C04 C05 C06 C07 C08 C09 C10 C11 C12 C13 C14 C15 C16 C17 C18 C19 C20; do
  s=$(date +%s)
  out=$(VERIF_SEED=$seed /venv/bin/python -m vf.run $c --tier $tier 2>&1); rc=$?
  echo "$c exit=$rc $(( $(date +%s) - s ))s $(echo "$out" | grep -c VIOLATION) violation-lines"
  [ $rc -ne 0 ] && echo "$out" | tail -5
done
