#!/usr/bin/env python3
"""Confirm a seeded change and record it under /verif/seeded/<id>/ (patch.diff, demo.py, notes.md,
meta.json).  For each seed directory given:
  1. the patch applies to a clean scratch worktree of /repo's HEAD,
  2. the repository's own test suite still passes with it,
  3. the demonstration passes on the clean tree and fails on the changed tree,
  4. the listed checks (default: chosen from the files the patch touches) are run against the changed
     tree (VERIF_REPO) and their verdicts recorded.
Nothing is ever applied to /repo itself by this script.

    tools/keepseed.py [--wt /tmp/mut2] [--checks C04,C05] /tmp/seed/out/C04_1 ...
"""
import argparse
import json
import os
import re
import shutil
import subprocess
import sys
import time

ROOT = os.path.dirname(os.path.dirname(os.path.abspath(__file__)))
PY = "/venv/bin/python"

BY_FILE = {
    "amaranth_soc/memory.py": ["C01", "C02", "C03", "C06", "C07", "C17", "C18"],
    "amaranth_soc/csr/bus.py": ["C01", "C04", "C05", "C06", "C14", "C16", "C19", "C20"],
    "amaranth_soc/csr/reg.py": ["C11", "C17", "C19", "C20", "C16", "C12"],
    "amaranth_soc/csr/action.py": ["C12", "C19", "C16"],
    "amaranth_soc/csr/event.py": ["C14", "C19", "C20"],
    "amaranth_soc/csr/wishbone.py": ["C10", "C01", "C19", "C20"],
    "amaranth_soc/event.py": ["C13", "C14", "C19", "C20"],
    "amaranth_soc/gpio.py": ["C16", "C19", "C20"],
    "amaranth_soc/wishbone/bus.py": ["C07", "C08", "C09", "C19", "C20", "C01"],
    "amaranth_soc/wishbone/sram.py": ["C15", "C01", "C19", "C20"],
}


def sh(cmd, **kw):
    return subprocess.run(cmd, shell=True, capture_output=True, text=True, **kw)


def main():
    ap = argparse.ArgumentParser()
    ap.add_argument("dirs", nargs="+")
    ap.add_argument("--wt", default="/tmp/mut2")
    ap.add_argument("--checks", default=None)
    ap.add_argument("--tier", default="quick")
    a = ap.parse_args()
    if not os.path.isdir(a.wt):
        r = sh(f"git -C /repo worktree add -q --detach {a.wt} HEAD")
        if r.returncode:
            print(r.stderr); sys.exit(2)
    head = sh("git -C /repo rev-parse --short HEAD").stdout.strip()
    sh(f"git -C {a.wt} checkout -q --detach {head}")
    for d in a.dirs:
        sid = os.path.basename(d.rstrip("/"))
        prop = sid.split("_")[0]
        patch = os.path.join(d, "patch.diff")
        demo = os.path.join(d, "demo.py")
        meta = dict(id=sid, property_broken=prop, repo_head=head, ran=[], results={}, caught_by=[])
        sh(f"git -C {a.wt} checkout -- .")
        r = sh(f"PYTHONPATH={a.wt} {PY} {demo}", cwd="/tmp")
        meta["demo_clean_exit"] = r.returncode
        meta["ran"].append(f"PYTHONPATH=<clean tree> {PY} demo.py  -> exit {r.returncode}")
        r = sh(f"git -C {a.wt} apply {patch}")
        if r.returncode:
            # written against an earlier /repo HEAD (before later fix: commits): confirm it there
            for base in ("c8743b4", "465838f"):
                sh(f"git -C {a.wt} checkout -q --detach {base}")
                meta["repo_head"] = base
                r = sh(f"git -C {a.wt} apply {patch}")
                if not r.returncode:
                    break
        if r.returncode:
            print(sid, "patch does not apply", r.stderr); sh(f"git -C {a.wt} checkout -q --detach {head}"); continue
        try:
            files = re.findall(r"^diff --git a/(\S+)", open(patch).read(), re.M)
            meta["files"] = files
            r = sh(f"cd {a.wt} && PYTHONPATH={a.wt} {PY} -m pytest -q -p no:cacheprovider tests 2>&1 | tail -1")
            meta["tests_with_change"] = r.stdout.strip()
            meta["ran"].append(f"cd <changed tree> && {PY} -m pytest -q tests  -> {r.stdout.strip()}")
            r = sh(f"PYTHONPATH={a.wt} {PY} {demo}", cwd="/tmp")
            meta["demo_changed_exit"] = r.returncode
            meta["demo_changed_tail"] = (r.stdout.strip().splitlines() or [""])[-1][:200]
            meta["ran"].append(f"PYTHONPATH=<changed tree> {PY} demo.py  -> exit {r.returncode}")
            checks = a.checks.split(",") if a.checks else sorted({c for f in files for c in BY_FILE.get(f, [])} | {prop})
            for c in checks:
                t0 = time.time()
                env = dict(os.environ, VERIF_REPO=a.wt, VERIF_NO_EVIDENCE="1")
                r = subprocess.run([PY, "-m", "vf.run", c, "--tier", a.tier], capture_output=True, text=True, cwd=ROOT, env=env)
                det = [l.strip() for l in r.stdout.splitlines() if l.startswith("  detail")]
                meta["results"][c] = dict(exit=r.returncode, seconds=round(time.time() - t0), detail=(det[0][:300] if det else ""))
                meta["ran"].append(f"VERIF_REPO=<changed tree> {PY} -m vf.run {c} --tier {a.tier}  -> exit {r.returncode}")
                if r.returncode == 1:
                    meta["caught_by"].append(c)
        finally:
            sh(f"git -C {a.wt} checkout -- .")
            sh(f"git -C {a.wt} checkout -q --detach {head}")
        ok = (meta.get("demo_clean_exit") == 0 and meta.get("demo_changed_exit") not in (0, None)
              and "passed" in meta.get("tests_with_change", "") and "failed" not in meta.get("tests_with_change", ""))
        meta["confirmed"] = ok
        notes = os.path.join(d, "notes.md")
        if os.path.exists(notes):
            meta["needs_to_manifest"] = " ".join(open(notes).read().split())[:900]
        if ok:
            dst = os.path.join(ROOT, "seeded", sid)
            os.makedirs(dst, exist_ok=True)
            for f in ("patch.diff", "demo.py", "notes.md"):
                if os.path.exists(os.path.join(d, f)) and os.path.abspath(d) != os.path.abspath(dst):
                    shutil.copy(os.path.join(d, f), os.path.join(dst, f))
            with open(os.path.join(dst, "meta.json"), "w") as f:
                json.dump(meta, f, indent=1)
        print(sid, "confirmed" if ok else "NOT CONFIRMED", "caught_by", meta["caught_by"],
              {c: v["exit"] for c, v in meta["results"].items()}, flush=True)


if __name__ == "__main__":
    main()
