#!/usr/bin/env python3
"""Regenerates /verif/MANIFEST.json from the table below (run after adding a check)."""
import json
import os

ROOT = os.path.dirname(os.path.dirname(os.path.abspath(__file__)))
PY = "/venv/bin/python"
TB = ("trusted base: Amaranth 0.5.10 front end (Fragment.get/Design), build_netlist and "
      "amaranth.sim.Simulator (two independent consumers of the same fragment are compared every run); ")

N = "explicit-state BFS over the real elaborated netlist (compiled NIR) vs reference model; traces replayed in amaranth.sim"
H = "explicit-state BFS over API call histories on real objects vs reference model"

CHECKS = {
 "C01": ("model_checking", N + "; hierarchies from a bounded grammar",
         "Every root address x read/write x select mask of every generated hierarchy, from reset and from every state one or two accesses can produce; oracle built only from root.memory_map.",
         TB + "data tokens are address-derived; hierarchy grammar and address widths bounded as stated in evidence"),
 "C02": ("model_checking", H,
         "All call histories (add_resource/add_window/align_to/freeze/freezing uses, valid and invalid arguments) to a stated depth on small maps, de-duplicated by the public observation; RefAlloc three-valued oracle + invariants on every state.",
         "address widths 2-4; alphabets and depth as reported in evidence; error message texts never inspected"),
 "C03": ("exploration", "exhaustive enumeration of map trees x all root addresses x all resources vs address arithmetic",
         "Finite grid of map trees from a grammar, every address of the root and every resource object (plus a stranger) checked against plain arithmetic; no state graph, so claimed as exhaustive exploration.",
         "tree grammar bounds (depth<=3, root<=6 address bits)"),
 "C04": ("model_checking", N + "; free driver, observer tracks protocol conformance",
         "Full reachable state graph of each multiplexer layout under a free driver (every addr/r_stb/w_stb/w_data and changing register values each cycle); strobe exactness and zero-when-idle on all sequences, snapshot data on conforming ones.",
         TB + "bus data width 1-2, address width 2-4, register value token sets"),
 "C05": ("model_checking", N + "; free driver, observer tracks protocol conformance",
         "Same graphs as C04 on the write cone: w_stb exactly one cycle after a write to the last address and never otherwise (all sequences); w_data = concatenation of this transaction's chunks (conforming); every sharing limit against one reference.",
         TB + "bus data width 1-2, address width 2-4"),
 "C06": ("model_checking", N + "; combinational part enumerated over all inputs; tree-vs-flat product BFS",
         "All inputs of every generated decoder (routing table from windows()), plus product exploration of decoder trees over real multiplexers against RefCSR at all_resources() addresses and against a real flat multiplexer.",
         TB + "address width 3-5, data width 1-2, <=4 subordinates, nesting depth 2"),
 "C07": ("model_checking", N + "; input product factored by structural+declared support",
         "Every request/response letter of every generated Wishbone decoder against the routing/relay table derived from the memory map.",
         TB + "data tokens for wide buses; geometry bounds in evidence; dense windows onto finer-granularity subordinates out of domain (as the property says)"),
 "C08": ("model_checking", N + "; owner inferred from behaviour",
         "All reachable arbiter states x all request/response letters for 1-4 initiators and feature subsets; owner inferred from bus behaviour, isolation and no-preemption checked on every edge.",
         TB + "per-initiator address/data tokens"),
 "C09": ("model_checking", N + " + SCC / longest-path analysis of the complete state graph",
         "Exact next-owner function on every edge plus absence of a starving cycle (SCC) and the N-1 bound (longest released-edge path) on the complete graph: a liveness verdict on all infinite schedules.",
         TB + "N<=4 initiators"),
 "C10": ("model_checking", N + "; Wishbone classic initiator automaton as driver",
         "All reachable sequencer states under a protocol-abiding initiator (every address, select mask, read/write, back-to-back/spaced, cyc without stb) for every width ratio; transfer-level reference for latency, strobes, lanes.",
         TB + "read-data tokens; ratio 8 uses address-derived tags"),
 "C11": ("model_checking", N + " (combinational: one state, all port values)",
         "Field-collection grammar x shapes x access modes; every value on element and field ports against the packing reference; acceptance iff access modes compatible.",
         TB + "<=5 leaves, total width<=8 fully enumerated"),
 "C12": ("model_checking", N + "; free driver",
         "Full reachable storage graph of every action class x shape x init under every (w_stb, w_data, r_stb, set/clear) letter each cycle against the per-bit next-state table.",
         TB + "shapes up to 3 bits"),
 "C13": ("model_checking", N + " + " + H,
         "All monitor states x all (inputs, enable, clear) letters for 0-3 sources and all trigger assignments; EventMap call histories to fixpoint against a list model.",
         TB + "<=3 sources"),
 "C14": ("model_checking", N + "; CSR-conforming driver x source activity",
         "Cycle-level BFS of the CSR event monitor (both attachments) with a conforming CSR driver and every source vector each cycle against RefCSR o RefMonitor at the map's addresses.",
         TB + "event counts/data widths as in evidence"),
 "C15": ("model_checking", N + "; free driver",
         "All reachable (memory, ack, latch) states under every bus letter for each geometry/init image against RefSRAM.",
         TB + "two complementary data tokens per lane; <=4 rows"),
 "C16": ("model_checking", N + "; free driver x all pin inputs (small), bounded-depth transactions (wide)",
         "Full cycle-level BFS for 1-2 pins; bounded-depth register-transaction exploration for wider configurations; RefGPIO o RefCSR oracle.",
         TB + "bounds per configuration in evidence (exhaustive flag false where depth-bounded)"),
 "C17": ("model_checking", H,
         "Builder call histories (add/Cluster/Index/freeze/as_memory_map) to a stated depth against the RefBuilder layout function.",
         "alphabet and depth as in evidence"),
 "C18": ("model_checking", H,
         "add_resource/add_window histories over a name alphabet with shared prefixes and '0' vs 0, named and anonymous windows, against a prefix-free set model.",
         "name alphabet and depth as in evidence"),
 "C19": ("exploration", "exhaustive enumeration of component configurations x elaboration histories (E, EE, EQE, EEE); netlist equality",
         "Every configuration generator of the other checks re-used; construct, elaborate 1-3 times interleaved with metadata queries under a watchdog; refusal classifier; netlist and metadata equality.",
         "configuration grids bounded as in evidence; watchdog 20 s"),
 "C20": ("exploration", "exhaustive enumeration of signature parameter grids (all pairs) and connect() per component configuration",
         "Signature grids: create() round trip, pairwise == iff parameters equal, member presence/widths; connect() of the complementary interface to every bus-facing port.",
         "parameter grids bounded as in evidence"),
}

BUILT = sorted(f[:-3].upper() for f in os.listdir(os.path.join(ROOT, "vf", "checks"))
               if f.startswith("c") and f[1:3].isdigit() and f.endswith(".py"))


def main():
    checks, na = [], []
    for pid, (level, tech, text, note) in CHECKS.items():
        if pid in BUILT:
            checks.append(dict(
                property_id=pid,
                quick_cmd=f"{PY} -m vf.run {pid} --tier quick",
                thorough_cmd=f"{PY} -m vf.run {pid} --tier thorough",
                evidence_file=f"/verif/evidence/{pid}.json",
                replay_cmd_template=f"{PY} -m vf.run {pid} --replay {{path}}",
                engine="vf",
                level_claimed=dict(category=level, text=text, design_ref=f"DESIGN.md section 5 ({pid})"),
                level_note=note,
                technique=tech))
        else:
            na.append(dict(property_id=pid, reason="check not built yet in this revision of /verif (planned, see DESIGN.md section 5); not a statement about applicability of model checking"))
    man = dict(
        version=1,
        setup_cmd=f"{PY} -m vf.selftest",
        hooks=dict(guard="AMARANTH_SOC_VERIF",
                   enable="none needed: no source hooks; checks import /repo's working tree through the editable install in /venv",
                   baseline_off_cmd="cd /repo && /venv/bin/python -m pytest -ra -q -p no:cacheprovider --timeout=900 --continue-on-collection-errors",
                   source_commits=[], add_only=True),
        engines=[dict(name="vf", path="/verif/vf",
                      serves_properties=BUILT,
                      kind_free_text="explicit-state model checker: Engine N compiles the real elaborated Amaranth netlist to a transition function and BFS-explores it with reference-model observers, cross-checked against amaranth.sim; Engine H BFS-explores API call histories on real objects")],
        checks=checks,
        notes="See DESIGN.md. Fix commits in /repo are recorded in known_findings.json.",
        not_applicable=na)
    with open(os.path.join(ROOT, "MANIFEST.json"), "w") as f:
        json.dump(man, f, indent=1)
    print("claimed:", BUILT, "not yet:", [x["property_id"] for x in na])


if __name__ == "__main__":
    main()
