#!/bin/bash
# tools/reseed.sh [jobs]  - re-confirm every recorded seeded change against the CURRENT checks (quick tier)
# and refresh seeded/<id>/meta.json; uses scratch worktrees /tmp/reseed_<k>, removed at the end.
jobs=${1:-4}
cd "$(dirname "$0")/.."
ls -d "$PWD"/seeded/C*_* | sort > /tmp/reseed.list
split -n r/$jobs /tmp/reseed.list /tmp/reseed.part.
k=0
for part in /tmp/reseed.part.*; do
  k=$((k+1))
  ( python3 tools/keepseed.py --wt /tmp/reseed_$k $(cat $part) > /tmp/reseed_$k.log 2>&1; git -C /repo worktree remove --force /tmp/reseed_$k ) &
done
wait
cat /tmp/reseed_*.log | sort
rm -f /tmp/reseed.list /tmp/reseed.part.*
