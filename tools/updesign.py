#!/usr/bin/env python3
"""Regenerates, in DESIGN.md, the 'seeded change -> checks' table (tools/seedtable.py) and the count of recorded
seeded changes."""
import glob, os, re, subprocess, sys
ROOT = os.path.dirname(os.path.dirname(os.path.abspath(__file__)))
p = os.path.join(ROOT, "DESIGN.md")
lines = open(p).read().split("\n")
i0 = next(i for i, l in enumerate(lines) if l.startswith("| seeded change | file(s)"))
i1 = i0
while i1 < len(lines) and lines[i1].startswith("|"):
    i1 += 1
tab = subprocess.run([sys.executable, os.path.join(ROOT, "tools", "seedtable.py")], capture_output=True, text=True).stdout.rstrip("\n").split("\n")
lines[i0:i1] = tab
s = "\n".join(lines)
n = len(glob.glob(os.path.join(ROOT, "seeded", "*", "meta.json")))
s = re.sub(r"produced \d+ changes to amaranth-soc", f"produced {n} changes to amaranth-soc", s)
open(p, "w").write(s)
print("rows", len(tab) - 2, "count", n)
