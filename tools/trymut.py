#!/usr/bin/env python3
"""Development helper: apply a patch to a scratch worktree, confirm the repository's own tests still
pass there, run the given checks against it (VERIF_REPO), and revert.

    tools/trymut.py <patch.diff> [--wt /tmp/mut] [--tier quick] [--demo demo.py] C04 C05 ...
"""
import argparse
import os
import subprocess
import sys
import time

ap = argparse.ArgumentParser()
ap.add_argument("patch")
ap.add_argument("checks", nargs="*")
ap.add_argument("--wt", default="/tmp/mut")
ap.add_argument("--tier", default="quick")
ap.add_argument("--demo", default=None)
ap.add_argument("--skip-tests", action="store_true")
a = ap.parse_args()

PY = "/venv/bin/python"


def sh(cmd, **kw):
    return subprocess.run(cmd, shell=True, capture_output=True, text=True, **kw)


sh(f"git -C {a.wt} checkout -- .")
if a.demo:
    r = sh(f"PYTHONPATH={a.wt} {PY} {a.demo}", cwd="/tmp")
    print(f"demo on clean tree: exit={r.returncode} {(r.stdout.strip().splitlines() or [''])[-1][:100]}")
r = sh(f"git -C {a.wt} apply {os.path.abspath(a.patch)}")
restore = None
if r.returncode:
    # the seeds were written against an earlier /repo HEAD (before later fix: commits): fall back to it
    restore = sh(f"git -C {a.wt} rev-parse HEAD").stdout.strip()
    for base in ("c8743b4", "465838f"):
        sh(f"git -C {a.wt} checkout -q --detach {base}")
        r = sh(f"git -C {a.wt} apply {os.path.abspath(a.patch)}")
        if not r.returncode:
            print(f"(patch applied on base {base})")
            break
if r.returncode:
    print("patch does not apply:", r.stderr)
    sys.exit(2)
try:
    if not a.skip_tests:
        r = sh(f"cd {a.wt} && PYTHONPATH={a.wt} {PY} -m pytest -q -p no:cacheprovider tests 2>&1 | tail -1")
        print("tests:", r.stdout.strip())
    if a.demo:
        r = sh(f"PYTHONPATH={a.wt} {PY} {a.demo}", cwd="/tmp")
        print(f"demo on changed tree: exit={r.returncode} {(r.stdout.strip().splitlines() or [''])[-1][:100]}")
    for c in a.checks:
        t0 = time.time()
        env = dict(os.environ, VERIF_REPO=a.wt, VERIF_NO_EVIDENCE="1")
        r = subprocess.run([PY, "-m", "vf.run", c, "--tier", a.tier], capture_output=True, text=True,
                           cwd=os.path.dirname(os.path.dirname(os.path.abspath(__file__))), env=env)
        lines = [l for l in r.stdout.splitlines() if l.startswith(("VIOLATION", "  detail", "KNOWN", "TOOL"))]
        print(f"{c}: exit={r.returncode} ({time.time() - t0:.0f}s) " + " | ".join(l[:230] for l in lines[:4]))
        if r.returncode == 2:
            print(r.stderr[-1500:])
finally:
    sh(f"git -C {a.wt} checkout -- .")
    if restore:
        sh(f"git -C {a.wt} checkout -q --detach {restore}")
